"""C02 -- see harness/drivers/hydro.py (shared measurement) and spec/TraceHydro.tla (PROP = "C02")."""
from . import hydrocheck

LEVEL = hydrocheck.LEVELS["C02"]


def run(chk, tier, seed):
    hydrocheck.run(chk, tier, seed, "C02")


def replay(chk, path):
    return hydrocheck.replay(chk, path, "C02")
