"""C10 -- equation of state is thermodynamically consistent and smoothly extrapolated.

Thermo.tla: region automaton + obligation matrix (phase x region x identity, continuity at both
ends, p = -V(min) inside).  Conformance: real Thermodynamics objects on potentials with
closed-form phases; every cell of the matrix is measured (25 temperatures per region from
0.2 TMin to 3 TMax, one-sided limits at the ends) and discharged in TLC; a trace is accepted
only if all cells were discharged within their digit bounds.
"""
import json
import math
import warnings
from multiprocessing import Pool

import numpy as np

from .. import models, quant, tlc

LEVEL = "exploration"
TICK = 1e5


def d6(f, T, h):
    """6th-order central difference"""
    return (-f(T - 3 * h) + 9 * f(T - 2 * h) - 45 * f(T - h) + 45 * f(T + h) - 9 * f(T + 2 * h) + f(T + 3 * h)) / (60 * h)


def scenario(cell):
    import WallGo
    from WallGo import Fields

    warnings.filterwarnings("ignore")
    u = cell["u"]
    if cell["model"] == "one":
        m = models.OneField(u=u)
        Tref, hi, lo = m.T0, "sym", "brk"
        Tn = cell["tn"] * Tref
        rng_hi = (1.003 * Tref, 1.6 * Tref)
        rng_lo = (0.6 * Tref, 1.045 * Tref)
    else:
        m = models.TwoField(u=u)
        Tref, hi, lo = math.sqrt(m.muh2 / m.ch), "S", "H"
        Tn = cell["tn"] * Tref
        rng_hi = (0.89 * Tref, 1.25 * Tref)
        rng_lo = (0.5 * Tref, 0.97 * Tref)
    evs = []
    try:
        pot = models.make_potential(m)
        pot.configureDerivatives(WallGo.VeffDerivativeSettings(temperatureVariationScale=0.05 * Tref, fieldValueVariationScale=[0.3 * m.field_scale()] * m.nf))
        th = WallGo.Thermodynamics(pot, Tn, Fields(tuple(np.ravel(m.minimum(lo, np.array(Tn))))), Fields(tuple(np.ravel(m.minimum(hi, np.array(Tn))))))
        dT = cell["dT"] * Tref
        th.freeEnergyHigh.tracePhase(rng_hi[0], rng_hi[1], dT, rTol=1e-6)
        th.freeEnergyLow.tracePhase(rng_lo[0], rng_lo[1], dT, rTol=1e-6)
        th.freeEnergyHigh.disableAdaptiveInterpolation()
        th.freeEnergyLow.disableAdaptiveInterpolation()
        th.setExtrapolate()
        evs.append({"e": "SetExtrapolate"})
        passes = [None] if not cell.get("history") else [None, cell["history"]]
        for hist in passes:
          if hist is not None:
            # the SAME Thermodynamics object, its tables rebuilt: with a finer step, or after a parameter of the potential changed
            if hist == "param":
                if cell["model"] == "one":
                    m.E *= 1.04
                else:
                    m.mus2 *= 1.03
            th.freeEnergyHigh.tracePhase(rng_hi[0], rng_hi[1], dT / 3, rTol=1e-6)
            th.freeEnergyLow.tracePhase(rng_lo[0], rng_lo[1], dT / 3, rTol=1e-6)
            evs.append({"e": "Retrace"})
            th.setExtrapolate()
            evs.append({"e": "SetExtrapolate"})
          for phase, br, P, DP, DDP, E, W, CS, tmin, tmax in (
              ("high", hi, th.pHighT, th.dpHighT, th.ddpHighT, th.eHighT, th.wHighT, th.csqHighT, th.TMinHighT, th.TMaxHighT),
              ("low", lo, th.pLowT, th.dpLowT, th.ddpLowT, th.eLowT, th.wLowT, th.csqLowT, th.TMinLowT, th.TMaxLowT)):
              f = lambda fn: (lambda T: float(fn(float(T))))
              P, DP, DDP, E, W, CS = map(f, (P, DP, DDP, E, W, CS))
              span = tmax - tmin
              # inside: mid points of table intervals (the table is a cubic spline: the derivative
              # checks use a stencil that stays within one interval, where they are exact)
              fe = th.freeEnergyHigh if phase == "high" else th.freeEnergyLow
              knots = np.asarray(fe._interpolationPoints, float)
              kk = np.where((knots[:-1] > tmin + 0.02 * span) & (knots[1:] < tmax - 0.02 * span))[0]
              kk = kk[np.linspace(0, len(kk) - 1, 25).astype(int)]
              mids, widths = 0.5 * (knots[kk] + knots[kk + 1]), knots[kk + 1] - knots[kk]
              regs = {"below": np.linspace(0.2 * tmin, tmin * (1 - 1e-3), 25),
                      "inside": mids,
                      "above": np.linspace(tmax * (1 + 1e-3), 3 * tmax, 25)}
              for reg, Ts in regs.items():
                  we = ww = wc = wdp = wddp = 16
                  for iT, T in enumerate(Ts):
                      p, dp, ddp, e, w, cs = P(T), DP(T), DDP(T), E(T), W(T), CS(T)
                      we = min(we, quant.reldigits(e, T * dp - p))
                      ww = min(ww, quant.reldigits(w, T * dp))
                      # cs2 = dp/de with de = T ddp ; outside the range the sound speed is frozen at the end value
                      if reg == "inside":
                          wc = min(wc, quant.reldigits(cs, dp / (T * ddp)))
                      else:
                          wc = min(wc, quant.reldigits(cs, dp / (T * ddp)))
                      # keep the whole 7-point stencil inside the region (p is only C^2 across a range end)
                      room = {"below": tmin - T, "inside": min(T - tmin, tmax - T), "above": T - tmax}[reg]
                      h = min(2e-3 * T, 0.3 * room)
                      if reg == "inside":
                          h = 0.15 * widths[iT]
                      wdp = min(wdp, quant.reldigits(dp, d6(P, T, h)))
                      wddp = min(wddp, quant.reldigits(ddp, d6(DP, T, h)))
                  base = {"e": "Obs", "kind": "identity", "phase": phase, "region": reg, "nSamples": len(Ts),
                          "tLo": int(round(Ts[0] / Tn * TICK)), "tHi": int(round(Ts[-1] / Tn * TICK)),
                          "tmin": int(round(tmin / Tn * TICK)), "tmax": int(round(tmax / Tn * TICK))}
                  for what, d in (("e", we), ("w", ww), ("cs2", wc), ("dp", wdp), ("ddp", wddp)):
                      evs.append(dict(base, what=what, d=d))
              for end, Tb in (("TMin", tmin), ("TMax", tmax)):
                  eps = 1e-9
                  for what, fn in (("p", P), ("dp", DP), ("ddp", DDP), ("cs2", CS)):
                      a, b = fn(Tb * (1 - eps)), fn(Tb * (1 + eps))
                      evs.append({"e": "Obs", "kind": "continuity", "phase": phase, "end": end, "what": what, "d": quant.reldigits(a, b)})
              Ts = regs["inside"]
              # p = -V(min): compare the field-dependent part (the common -cT^4 background would hide errors)
              pv = np.array([P(T) for T in Ts])
              ex = -np.asarray(m.Vmin(br, Ts), float)
              bg = m.c * Ts**4
              evs.append({"e": "Obs", "kind": "inside", "phase": phase, "d": quant.digits(np.max(np.abs(pv - ex)) / max(np.max(np.abs(ex - bg)), 1e-4 * np.max(np.abs(ex))))})
        evs.append({"e": "End"})
    except Exception as ex:
        evs.append({"e": "Exception", "out": type(ex).__name__, "msg": str(ex)[:200]})
    return {"id": "eos_{model}_tn{tn}_u{u}_dT{dT}".format(**cell) + ("_" + cell["history"] if cell.get("history") else ""), "ev": evs, "cell": cell}


def run(chk, tier, seed):
    res = tlc.run_model("Thermo.tla", "Thermo.cfg")
    chk.add_model(res, label="obligation matrix protocol (all orders of up to 3 discharges)")
    cells = []
    for mdl, tns in (("one", (1.01, 1.02, 1.035)), ("two", (0.9, 0.93, 0.96))):
        for tn in tns:
            for u in (1.0, 0.01, 100.0):
                for dT in (1e-3, 3e-3):
                    cells.append(dict(model=mdl, tn=tn, u=u, dT=dT))
    if tier == "quick":
        cells = [c for c in cells if c["dT"] == 3e-3 and c["tn"] in (1.02, 0.93)]
    # histories on one object: tables rebuilt with a finer step / after a parameter change, all obligations again
    for mdl, tn in (("one", 1.02), ("two", 0.93)):
        for u in ((1.0,) if tier == "quick" else (1.0, 0.01, 100.0)):
            for hist in ("refine", "param"):
                cells.append(dict(model=mdl, tn=tn, u=u, dT=3e-3, history=hist))
    with Pool(16) as pool:
        traces = pool.map(scenario, cells, chunksize=1)
    for tr in traces:
        for ev in tr["ev"]:
            if ev["e"] == "Obs":
                chk.count((tr["id"], ev["kind"], ev["phase"], ev.get("region"), ev.get("end"), ev.get("what")))
    chk.sample(traces[0])
    vr = tlc.validate("TraceThermo.tla", "TraceThermo.cfg", traces)
    chk.add_validation(vr, traces)
    hist = {}
    for tr in traces:
        for ev in tr["ev"]:
            if ev["e"] == "Obs":
                k = ev["kind"] + ":" + ev.get("what", "pIsMinusV")
                hist[k] = min(hist.get(k, 16), ev["d"])
    chk.extra.update(scenarios=len(traces), cells_per_scenario=48, worst_digits_by_cell_kind=hist,
                     checker_cmd="tlc Thermo.tla ; tlc TraceThermo.tla")
    chk.rule = ("scenarios = model (one-/two-field, closed-form phases) x nucleation temperature x unit system x tracing step; per scenario all 48 "
                "cells of the obligation matrix, 25 temperatures per region (0.2 TMin .. 3 TMax), one-sided limits T(1 +- 1e-9) at the ends; "
                "distinct = distinct (scenario, cell)")
    chk.assumptions += ["derivative oracle: 6th-order central differences of the code's own p and dp", "p = -V(min): closed-form minimum of the polynomial potential"]


def replay(chk, path):
    with open(path) as f:
        tr = json.load(f)
    new = scenario(tr["cell"])
    for ev in new["ev"]:
        print(json.dumps(ev))
    vr = tlc.validate("TraceThermo.tla", "TraceThermo.cfg", [new])
    chk.add_validation(vr, [new])
    return chk.finish()
