"""C01 -- the reported wall velocity is a bracketed zero of the total pressure; results are
functions of model and settings only.

Design model WallSolver.tla (exhaustive: all sign functions on the lattice, all flag patterns, all
probe strategies).  Conformance: WallGoManager.solveWall on polynomial models with closed-form
phases; every wallPressure call made by the solver is recorded by a harness-side wrapper, the
harness adds independent audit evaluations around the reported velocity, a fresh hydrodynamic
matching, and repeated / interleaved calls on the same manager; TraceWallSolver.tla judges.
"""
import hashlib
import json
import math
import os
import shutil
import tempfile
import warnings
from multiprocessing import Pool

import numpy as np

from .. import models, pipeline, quant, tlc
from . import manager
from . import deton
from . import configload
from . import solverbuild
from . import setup as setupdrv

LEVEL = "model_checking"
VT = 1e-7


def vt(v):
    return quant.ticks(v, VT)


def result_hash(res):
    h = hashlib.sha256()

    def add(x):
        if x is None:
            h.update(b"None")
        elif hasattr(x, "coefficients"):
            add(np.asarray(x.coefficients))
        elif isinstance(x, (list, tuple)):
            for y in x:
                add(y)
        else:
            a = np.asarray(x)
            if a.dtype == object:
                h.update(repr(x).encode())
            else:
                h.update(np.ascontiguousarray(a, dtype=float).tobytes() if a.dtype.kind in "fiub" else repr(x).encode())

    for name in ("wallVelocity", "wallVelocityError", "wallVelocityLTE", "temperaturePlus", "temperatureMinus", "velocityJouguet",
                 "wallWidths", "wallOffsets", "velocityProfile", "fieldProfiles", "temperatureProfile", "success", "message"):
        add(getattr(res, name, None))
    add(str(getattr(res, "solutionType", None)))
    for name in ("Deltas",):
        d = getattr(res, name, None)
        if d is not None:
            for k in ("Delta00", "Delta02", "Delta20", "Delta11"):
                add(getattr(d, k))
    return h.hexdigest()


class Recorder:
    """harness-side probes (no change to /repo): EOM.wallPressure (depth-0 calls) and, inside each call, every pass of its
    iteration -- the outer calls of _intermediatePressureResults / _getNextPressure with the multiplier they were given"""

    def __init__(self, WG):
        self.WG, self.calls, self.active = WG, [], False
        self.all_calls = []          # every depth-0 call, also those made outside the recorded solveWall (audits, detonation search)
        self.orig = WG.EOM.wallPressure
        self.orig_int = WG.EOM._intermediatePressureResults
        self.orig_next = WG.EOM._getNextPressure
        self.depth_wp = 0
        self.in_next = 0
        self.passes = None
        rec = self

        def wrapped(eom, wallVelocity, wallParams, atol=None, rtol=None, boltzmannResultsInput=None):
            stage = float(eom.pressAbsErrTol)
            top = rec.depth_wp == 0
            rec.depth_wp += 1
            if top:
                rec.passes = []
            try:
                out = rec.orig(eom, wallVelocity, wallParams, atol, rtol, boltzmannResultsInput)
            finally:
                rec.depth_wp -= 1
            if top:
                c = dict(v=float(wallVelocity), p=float(out[0]), conv=bool(eom.successWallPressure),
                         tprof=bool(eom.successTemperatureProfile), atol=stage, out=out,
                         passes=rec.passes, rtol=float(eom.pressRelErrTol if rtol is None else rtol),
                         atolUsed=float(stage if atol is None else atol), maxIt=int(eom.maxIterations),
                         improve0=bool(eom.forceImproveConvergence or wallVelocity > eom.hydrodynamics.vJ))
                rec.all_calls.append(c)
                if rec.active:
                    rec.calls.append(c)
            if top:
                rec.passes = None
            return out

        def wrapped_int(eom, *a, **kw):
            out = rec.orig_int(eom, *a, **kw)
            if rec.passes is not None and rec.in_next == 0 and rec.depth_wp == 1:
                rec.passes.append(dict(kind="init" if not rec.passes else "plain", mult=float(kw.get("multiplier", 1.0)), p=float(out[0]), es=0.0))
            return out

        def wrapped_next(eom, *a, **kw):
            rec.in_next += 1
            try:
                out = rec.orig_next(eom, *a, **kw)
            finally:
                rec.in_next -= 1
            if rec.passes is not None and rec.in_next == 0 and rec.depth_wp == 1:
                rec.passes.append(dict(kind="improved", mult=float(kw.get("multiplier", 1.0)), p=float(out[0]), es=float(out[4])))
            return out

        WG.EOM.wallPressure = wrapped
        WG.EOM._intermediatePressureResults = wrapped_int
        WG.EOM._getNextPressure = wrapped_next

    def close(self):
        self.WG.EOM.wallPressure = self.orig
        self.WG.EOM._intermediatePressureResults = self.orig_int
        self.WG.EOM._getNextPressure = self.orig_next


def iteration_events(call):
    """the passes of one wallPressure call as PressureIter events; the comparisons are recomputed from the recorded pressures
    with the code's own formulas (error, errTol = max(rtol |p|, atol) * multiplier, two-cycle test, slow-decrease test)"""
    ps = call["passes"] or []
    if not ps or ps[0]["kind"] != "init":
        return None
    evs = [{"e": "Start", "maxIt": call["maxIt"], "improve": call["improve0"]}]
    pressures = [ps[0]["p"]]
    for q in ps[1:]:
        pressures.append(q["p"])
        mult = q["mult"]
        error = np.abs(pressures[-1] - pressures[-2])
        errTol = np.maximum(call["rtol"] * np.abs(q["p"]), call["atolUsed"]) * mult
        es = q["es"]
        osc = bool(len(pressures) >= 4 and abs(pressures[-1] - pressures[-3]) < errTol and abs(pressures[-2] - pressures[-4]) < errTol)
        slow = bool(len(pressures) > 2 and error > abs(pressures[-2] - pressures[-3]) / 1.5)
        kk = -math.log2(mult) if mult > 0 else 9999
        evs.append({"e": "Pass", "improve": q["kind"] == "improved", "k": int(round(kk)) if abs(kk - round(kk)) < 1e-9 else -1,
                    "cErr": bool(error < errTol), "sLt": bool(es < errTol), "sGt": bool(es > errTol), "osc": osc, "slow": slow})
    ret = float(call["out"][0])
    evs.append({"e": "Exit", "passes": len(ps) - 1, "succ": call["conv"], "retLast": bool(ret == pressures[-1]),
                "retMean": bool(ret == float(np.mean(pressures[-4:])))})
    return evs


def scripted_iterations(args):
    """The loop of EOM.wallPressure on SCRIPTED pressure updates: the two update routines are replaced by a damped fixed-point
    map p -> p + m (g(p) - p), g(p) = p* + lam (p - p*) (+ a perturbation), so that every branch of the loop -- two-cycles,
    slow decrease, 'converged outside but not inside', the every-tenth-pass rule, the cap -- is taken by the real code.
    Returns PressureIter traces."""
    seed, nscripts = args
    import WallGo

    warnings.filterwarnings("ignore")
    rng = np.random.default_rng(seed)
    m = models.pipeline_model("two")
    man, Tn = pipeline.build_manager(m, 0.92)
    hy = man.hydrodynamics
    st = WallGo.WallSolverSettings(bIncludeOffEquilibrium=False, meanFreePathScale=50.0, wallThicknessGuess=5.0)
    eom = man.setupWallSolver(st).eom
    rec = Recorder(WallGo)
    traces = []

    class Bg:
        temperatureProfile = np.ones(eom.grid.M + 1)
        velocityProfile = np.ones(eom.grid.M + 1)

    try:
        for j in range(nscripts):
            lam = float(rng.choice([-1.0, -1.0, -1.2, -0.97, -0.6, 0.3, 0.9, 0.97, 0.995, 1.02]))
            pstar = float(rng.choice([1.0, -3.0, 250.0, 0.0]))
            noise = float(rng.choice([0.0, 0.0, 1e-3, 0.3]))
            esfac = float(rng.choice([0.0, 0.5, 3.0, 30.0]))
            state = {"p": pstar + float(rng.choice([1.0, -0.5, 40.0]))}

            def step(mult):
                g = pstar + lam * (state["p"] - pstar) + noise * rng.normal() * abs(state["p"] - pstar)
                state["p"] = state["p"] + mult * (g - state["p"])
                return state["p"]

            def stub_int(eom_, wallParams, vevLowT, vevHighT, c1, c2, velocityMid, boltzmannResults, Tplus, Tminus,
                         temperatureProfileInput=None, velocityProfileInput=None, multiplier=1.0):
                return step(multiplier), wallParams, boltzmannResults, Bg()

            def stub_next(eom_, pressure1, wallParams1, vevLowT, vevHighT, c1, c2, velocityMid, boltzmannResults1, Tplus, Tminus,
                          temperatureProfile=None, velocityProfile=None, multiplier=1.0):
                before = state["p"]
                p = step(multiplier)
                return p, wallParams1, boltzmannResults1, Bg(), esfac * abs(p - before)

            rec.orig_int, rec.orig_next = stub_int, stub_next
            eom.maxIterations = int(rng.choice([2, 3, 5, 12, 25, 45]))
            eom.forceImproveConvergence = bool(rng.random() < 0.3)
            eom.forceEnergyConservation = bool(rng.random() < 0.5)
            eom.pressRelErrTol = float(rng.choice([0.1, 1e-2, 1e-4]))
            eom.pressAbsErrTol = float(rng.choice([1e-8, 1e-3]))
            vw = float(rng.choice([0.5 * (hy.vMin + hy.vJ), min(0.99, hy.vJ + 0.05)]))
            rec.all_calls.clear()
            try:
                eom.wallPressure(vw, WallGo.WallParams(widths=np.array([5.0 / Tn] * m.nf), offsets=np.zeros(m.nf)))
                evs = iteration_events(rec.all_calls[-1]) if rec.all_calls else None
            except Exception as ex:
                evs = [{"e": "Exception", "out": type(ex).__name__, "msg": str(ex)[:200]}]
            if evs:
                traces.append({"id": f"script_s{seed}_{j}_lam{lam}_it{eom.maxIterations}", "ev": evs,
                               "cell": {"kind": "piterScript", "seed": seed, "j": j, "lam": lam, "maxIt": int(eom.maxIterations)}})
    finally:
        rec.close()
    return traces


def same_as_last(res, last):
    """are the fields of the result those returned by the last pressure evaluation? (bitwise)"""
    _, wp, bres, bbg, hyd = last["out"]
    try:
        return bool(np.array_equal(res.wallWidths, wp.widths) and np.array_equal(res.wallOffsets, wp.offsets)
                    and res.temperaturePlus == hyd.temperaturePlus and res.temperatureMinus == hyd.temperatureMinus
                    and res.velocityJouguet == hyd.velocityJouguet
                    and np.array_equal(res.temperatureProfile, bbg.temperatureProfile)
                    and np.array_equal(res.velocityProfile, bbg.velocityProfile)
                    and np.array_equal(np.asarray(res.fieldProfiles), np.asarray(bbg.fieldProfiles)))
    except Exception:
        return False


def scenario(cell):
    import WallGo

    warnings.filterwarnings("ignore")
    evs = []
    tmp = None
    rec = None
    try:
        m = models.pipeline_model(cell["model"], u=cell.get("u", 1.0))
        npart = cell.get("particles", 0)
        cdir = None
        if npart:
            tmp = tempfile.mkdtemp(prefix="c01.", dir=tlc.scratch())
            pipeline.write_collisions(tmp, ["top", "W"][:npart], cell["N"], seed=3, strength=cell.get("cstrength", 1.0))
            from pathlib import Path
            cdir = Path(tmp)
        man, Tn = pipeline.build_manager(m, cell["tn"], M=cell["M"], N=cell["N"], errTol=cell["errTol"], maxIterations=cell["maxIt"],
                                         nparticles=npart, collision_dir=cdir, pressRelErrTol=cell.get("pressRel", 0.1))
        if cell.get("thickMax"):
            man.config.configEOM.wallThicknessBounds = (man.config.configEOM.wallThicknessBounds[0], float(cell["thickMax"]))
        hy = man.hydrodynamics
        settings = WallGo.WallSolverSettings(bIncludeOffEquilibrium=bool(npart), meanFreePathScale=50.0, wallThicknessGuess=5.0)
        rec = Recorder(WallGo)
        vmax = min(hy.vJ, hy.fastestDeflag())
        evs.append({"e": "Setup", "out": "ok", "vMin": vt(hy.vMin), "vMax": vt(vmax), "vJ": vt(hy.vJ), "errTol": vt(cell["errTol"])})
        rec.active = True
        res = man.solveWall(settings)
        rec.active = False
        calls = list(rec.calls)
        for c in calls:
            evs.append({"e": "Eval", "v": vt(c["v"]), "s": quant.sign(c["p"]), "conv": c["conv"], "tprof": c["tprof"],
                        "atol": "ini" if c["atol"] == 1e-8 else "set"})
        kind = "VELOCITY" if (res.success and res.wallVelocity is not None) else ("RUNAWAY" if (res.success and str(res.solutionType).endswith("RUNAWAY")) else ("ERROR" if not res.success else "OTHER"))
        rv = {"e": "Result", "kind": kind, "succ": bool(res.success), "v": vt(res.wallVelocity) if (res.wallVelocity is not None and kind == "VELOCITY") else -1,
              "type": str(res.solutionType).split(".")[-1], "fromLast": bool(calls and same_as_last(res, calls[-1])),
              "typeOK": bool(res.wallVelocity is None or (str(res.solutionType).endswith("DEFLAGRATION") == (res.wallVelocity <= hy.vJ))),
              "msg": str(res.message)[:80]}
        # do the returned wall parameters sit on a bound / the temperatures outside the tabulated ranges? (the code's own
        # comparisons, with the bounds of the configuration in force)
        ce = man.config.configEOM
        tbb, obb = ce.wallThicknessBounds, ce.wallOffsetBounds
        if res.wallWidths is not None and res.wallOffsets is not None:
            w_, o_ = np.asarray(res.wallWidths, float), np.asarray(res.wallOffsets, float)
            rv["pinned"] = bool(np.any(w_ == tbb[0] / Tn) or np.any(w_ == tbb[1] / Tn) or np.any(o_ == obb[0]) or np.any(o_ == obb[1]))
        else:
            rv["pinned"] = False
        if res.temperaturePlus is not None and res.temperatureMinus is not None:
            rv["inRange"] = bool(hy.TMinLowT <= res.temperatureMinus <= hy.TMaxLowT and hy.TMinHighT <= res.temperaturePlus <= hy.TMaxHighT)
        else:
            rv["inRange"] = True
        if kind != "VELOCITY" and res.wallVelocity is not None and not res.success:
            rv["v"] = -1
        evs.append(rv)
        h0 = result_hash(res)
        if kind == "VELOCITY":
            # independent audit of the bracket with fresh wall parameters
            solver = man.setupWallSolver(settings)
            wp0 = WallGo.WallParams(widths=np.array(res.wallWidths, float), offsets=np.array(res.wallOffsets, float))
            solver.eom.pressAbsErrTol = calls[-1]["atol"]
            tb = man.config.configEOM.wallThicknessBounds
            for k in (1, 2, 4):
                side = {}
                for name, vv in (("Below", res.wallVelocity - k * cell["errTol"]), ("Above", min(res.wallVelocity + k * cell["errTol"], vmax))):
                    out = solver.eom.wallPressure(vv, WallGo.WallParams(widths=wp0.widths.copy(), offsets=wp0.offsets.copy()))
                    w = np.asarray(out[1].widths) * Tn
                    ok = bool(solver.eom.successWallPressure and solver.eom.successTemperatureProfile
                              and np.all(w > 1.2 * tb[0]) and np.all(w < 0.85 * tb[1]))
                    side["s" + name] = quant.sign(out[0])
                    side["ok" + name] = ok
                evs.append(dict({"e": "Audit", "k": k}, **side))
            vp, vm, Tp, Tm = hy.findMatching(res.wallVelocity)
            evs.append({"e": "Fresh", "dTp": quant.ticks((Tp - res.temperaturePlus) / Tn, 1e-6), "dTm": quant.ticks((Tm - res.temperatureMinus) / Tn, 1e-6),
                        "dvJ": vt(hy.vJ - res.velocityJouguet)})
        # history independence: repeat; interleave LTE and (cheap) other calls; repeat again
        hist = cell.get("history", ["solve"])
        for op in hist:
            if op == "lte":
                man.wallSpeedLTE()
            elif op == "matching":
                hy.findMatching(0.5 * (hy.vMin + hy.vJ))
                hy.efficiencyFactor(0.3)
            elif op == "deton":
                try:
                    man.solveWallDetonation(settings)
                except Exception:
                    pass
            elif op == "solve":
                r2 = man.solveWall(settings)
                evs.append({"e": "Repeat", "after": hist[: hist.index(op) + 1], "same": bool(result_hash(r2) == h0)})
        evs.append({"e": "End"})
        piter = [iteration_events(c) for c in rec.all_calls]
    except Exception as ex:
        evs.append({"e": "Setup" if not evs else "Exception", "out": type(ex).__name__, "msg": str(ex)[:200]})
    finally:
        if rec:
            rec.close()
        if tmp:
            shutil.rmtree(tmp, ignore_errors=True)
    cid = "{model}_tn{tn}_M{M}N{N}_tol{errTol}_it{maxIt}_p{p}_u{uu}".format(p=cell.get("particles", 0), uu=cell.get("u", 1.0), **cell) + (f"_L{cell['thickMax']}" if cell.get("thickMax") else "")
    # description of the observation, used ONLY to match entries of known_findings.json (the verdict is TLC's)
    contradict = any(e.get("e") == "Audit" and e["k"] >= 2 and ((e["okBelow"] and e["sBelow"] > 0) or (e["okAbove"] and e["sAbove"] < 0)) for e in evs)
    other = any(e.get("e") in ("Exception",) or (e.get("e") == "Repeat" and not e["same"]) or (e.get("e") == "Result" and e["kind"] == "VELOCITY" and not e["fromLast"]) for e in evs)
    cell = dict(cell, symptom="auditContradictsBracket" if (contradict and not other) else ("other" if other else "none"))
    return {"id": cid, "ev": evs, "cell": cell, "piter": [p for p in (locals().get("piter") or []) if p]}


def cells(tier):
    out = []
    base = [("one", 2.1), ("one", 2.15), ("two", 0.92)]
    for mdl, tn in base:
        for M in ((20,) if tier == "quick" else (20, 30, 40)):
            for tol in ((1e-3,) if tier == "quick" else (1e-2, 1e-3, 1e-4)):
                out.append(dict(model=mdl, tn=tn, M=M, N=5, errTol=tol, maxIt=20, history=["lte", "solve"] if tier == "quick" else ["lte", "solve", "matching", "deton", "solve"]))
    out.append(dict(model="one", tn=1.9, M=20, N=5, errTol=1e-3, maxIt=20, history=["solve"]))           # runaway
    out.append(dict(model="one", tn=2.1, M=20, N=5, errTol=1e-3, maxIt=3, history=["solve"]))           # forces the unconverged-pressure path
    out.append(dict(model="one", tn=2.15, M=20, N=5, errTol=1e-3, maxIt=2, history=["deton"]))
    out.append(dict(model="one", tn=2.1, M=20, N=5, errTol=1e-3, maxIt=20, thickMax=2.0, history=["solve"]))       # wall width pinned to its upper bound: an error, not a velocity          # cap exit after one pass; detonation search: improved update from the start
    # out-of-equilibrium particles with synthetic collision files
    out.append(dict(model="one", tn=2.1, M=20, N=5, errTol=1e-3, maxIt=20, particles=1, cstrength=1.0, history=["solve"]))
    out.append(dict(model="two", tn=0.94, M=20, N=5, errTol=1e-3, maxIt=20, history=["solve"]))          # known finding C01-F1
    if tier == "thorough":
        out.append(dict(model="two", tn=0.92, M=20, N=5, errTol=1e-3, maxIt=20, particles=2, cstrength=1.0, history=["lte", "solve"]))
        out.append(dict(model="one", tn=2.15, M=30, N=7, errTol=1e-3, maxIt=20, particles=1, cstrength=0.3, history=["solve"]))
        for u in (0.01, 100.0):
            out.append(dict(model="one", tn=2.1, M=20, N=5, errTol=1e-3, maxIt=20, u=u, history=["solve"]))
    return out


def _points_of_calls(beh, op):
    """points at which the Call op of this behaviour is made (the point installed at that time)"""
    if op["op"] != "Call":
        return []
    cur = None
    for o in beh:
        if o["op"] == "Setup" and o["kind"] == "good":
            cur = o["p"]
        if o is op:
            return [cur] if cur else []
    return []


def _score(beh):
    """how much of the history clause a generated history exercises: solves at a point after solves at another point
    ('previous benchmark points'), solves after a rejected setup, after other solver calls, repeated solves"""
    sc, cur, solved, since = 0, None, [], set()
    for o in beh:
        if o["op"] == "Setup":
            if o["kind"] == "good":
                cur = o["p"]
            else:
                since.add("rejected")
        elif o["op"] == "Call" and cur:
            if o["c"] == "solve":
                sc += 3 * (len({p for p in solved if p != cur}) > 0) + 2 * ("rejected" in since) + len(since - {"rejected"}) + (cur in solved)
                solved.append(cur)
                since = set()
            else:
                since.add(o["c"])
    return sc


def _select(behs, n):
    """the n highest-scoring histories, at most ceil(n/2) starting at the same point"""
    out, per = [], {}
    for b in sorted(behs, key=lambda b: (-_score(b), json.dumps(b, sort_keys=True))):
        first = next((o["p"] for o in b if o["op"] == "Setup"), "?")
        if per.get(first, 0) >= (n + 1) // 2:
            continue
        per[first] = per.get(first, 0) + 1
        out.append(b)
        if len(out) == n:
            break
    return out


def run(chk, tier, seed):
    res = tlc.run_model("WallSolver.tla", "WallSolver.cfg" if tier == "quick" else "WallSolverK8.cfg", timeout=3000)
    chk.add_model(res, label="exhaustive: all pressure-sign functions on the lattice, all flag patterns, all probe strategies")
    cs = cells(tier)
    # call histories of one manager, generated by TLC from SimManager.tla (history clause of the property)
    chk.add_model(tlc.run_model("Manager.tla", "Manager.cfg", timeout=1200), label="manager life cycle: results are a function of (point, call); installed data change only by a successful setup")
    gen = tlc.behaviours("SimManager.tla", "SimManagerQuick.cfg" if tier == "quick" else "SimManager.cfg", simulate=400 if tier == "quick" else 3000, depth=16, seed=seed)
    behs = _select(gen["behaviours"], 4 if tier == "quick" else 32)
    pairs = sorted({(op["p"], "info") for b in behs for op in b if op["op"] == "Setup" and op["kind"] == "good"}
                   | {(pt, op["c"]) for b in behs for op in b for pt in _points_of_calls(b, op)})
    with Pool(16) as pool:
        a1 = pool.map_async(scenario, cs, chunksize=1)
        a2 = pool.map_async(manager.execute, behs, chunksize=1)
        a3 = pool.map_async(manager.fresh, pairs, chunksize=1)
        a4 = pool.map_async(scripted_iterations, [(seed * 100 + q, 150 if tier == "quick" else 600) for q in range(2 if tier == "quick" else 8)], chunksize=1)
        a5 = pool.map_async(deton.scripted_searches, [(seed * 100 + q, 100 if tier == "quick" else 400) for q in range(2 if tier == "quick" else 8)], chunksize=1)
        a6 = pool.map_async(setupdrv.scenario, setupdrv.scenarios(tier, seed), chunksize=1)
        a7 = pool.map_async(solverbuild.worker, solverbuild.jobs(tier, seed), chunksize=1)
        traces, hevs, refs, scripted, dsearch, straces, sbuild = a1.get(), a2.get(), a3.get(), a4.get(), a5.get(), a6.get(), a7.get()
    htraces = []
    for i, (b, evs) in enumerate(zip(behs, hevs)):
        used = {(op["p"], "info") for op in b if op["op"] == "Setup" and op["kind"] == "good"} | {(pt, op["c"]) for op in b for pt in _points_of_calls(b, op)}
        ref = [{"e": "Ref", "p": p_, "c": c_, "h": h_} for (p_, c_, h_) in refs if (p_, c_) in used]
        sym = "historyDependent" if any(e.get("out") not in ("ok", "raises", "WallGoPhaseValidationError") for e in evs) else "none"
        htraces.append({"id": f"history{i}_" + "".join((op.get("p") or op.get("c", "")[:1] or op["m"][:1]) for op in b)[:60], "ev": ref + evs,
                        "cell": {"kind": "history", "behaviour": b, "symptom": sym}})
        chk.count("history:" + json.dumps(b, sort_keys=True))
    vr = tlc.validate("TraceManager.tla", "TraceManager.cfg", htraces)
    chk.add_validation(vr, htraces, what="manager history")
    chk.extra.update(manager_histories=len(htraces), fresh_references=len(refs), history_generator_states=gen["generated"])
    for tr in traces:
        chk.count(tr["id"])
    chk.sample(traces[0])
    vr = tlc.validate("TraceWallSolver.tla", "TraceWallSolver.cfg", traces)
    chk.add_validation(vr, traces)
    # the iteration inside every recorded wallPressure call, against PressureIter.tla
    chk.add_model(tlc.run_model("PressureIter.tla", "PressureIter.cfg"), label="pressure iteration: flag iff converged exit, mean iff cap exit, damping monotone, improved update sticky")
    chk.add_model(tlc.run_model("PressureIter.tla", "PressureIterCap.cfg"), expect_violation="CapRespected",
                  label="documented counterexample: 'converged outside, not inside' halves the multiplier without looking at the iteration cap")
    if tier == "thorough":
        # unbounded in maxIterations and in the number of passes: inductive invariant discharged by Apalache
        import subprocess
        ap = subprocess.run([os.path.join(os.path.dirname(os.path.dirname(os.path.dirname(os.path.abspath(__file__)))), "tools", "apalache_pressureiter.sh")],
                            capture_output=True, text=True, timeout=3000)
        chk.extra["apalache_inductive_PressureIter"] = ap.stdout.strip().splitlines()
        if ap.returncode == 1:
            chk.violation("design:PressureIter:inductive", None, "Apalache did not discharge the inductive invariant of PressureIter.tla: " + ap.stdout[-400:])
        elif ap.returncode != 0:
            raise tlc.MachineryError("apalache_pressureiter.sh failed: " + (ap.stdout + ap.stderr)[-400:])
    ptraces = [{"id": f"{tr['id']}_call{j}", "ev": evs, "cell": dict(tr["cell"], kind="piter", call=j)} for tr in traces for j, evs in enumerate(tr.get("piter", []))]
    ptraces += [t for g in scripted for t in g]
    if ptraces:
        chk.add_validation(tlc.validate("TracePressureIter.tla", "TracePressureIter.cfg", ptraces), ptraces, what="pressure iteration")
    # "a function of the model and settings only": where the settings come from -- Config.loadConfigFromFile as a state update
    chk.add_model(tlc.run_model("ConfigLoad.tla", "ConfigLoad.cfg", timeout=900), label="configuration loading: only the keys a file mentions change, unknown keys are ignored, loads compose")
    chk.add_model(tlc.run_model("ConfigLoad.tla", "ConfigLoadAtomic.cfg", timeout=900), expect_violation="Atomic",
                  label="documented counterexample: a load that raises has already assigned the keys read before the offending one")
    ctraces = configload.run_sequences(tier, seed)
    chk.add_validation(tlc.validate("TraceConfigLoad.tla", "TraceConfigLoad.cfg", ctraces), ctraces, what="configuration loading")
    chk.extra.update(config_load_sequences=len(ctraces), config_loads=sum(1 for t in ctraces for e in t["ev"] if e["e"] == "Load"),
                     config_loads_raising=sum(1 for t in ctraces for e in t["ev"] if e["e"] == "Load" and e["out"] != "ok"))
    # where the installed thermodynamics / hydrodynamics come from: the set-up call, step by step, with its error exits
    chk.add_model(tlc.run_model("Setup.tla", "Setup.cfg", timeout=900), label="set-up protocol: order of steps, error exits, decision table of the traced temperature ranges")
    chk.add_model(tlc.run_model("Setup.tla", "SetupLate.cfg", timeout=900), expect_violation="FailureLeavesNothing",
                  label="documented counterexample: a set-up failing after validatePhaseInput has already replaced phases / thermodynamics")
    chk.add_validation(tlc.validate("TraceSetup.tla", "TraceSetup.cfg", straces), straces, what="set-up call")
    chk.extra.update(setup_calls_validated=len(straces), setup_outcomes={o: sum(1 for t in straces if t["ev"][-1].get("out") == o) for o in sorted({t["ev"][-1].get("out") for t in straces})})
    # what a wall solver is built from: every setting reaches the object that uses it, at its value at the time of the call
    chk.add_model(tlc.run_model("SolverBuild.tla", "SolverBuild.cfg", timeout=900),
                  label="solver construction: error exits in the code's order, tail rule, detonation window, no stale or cached setting, a failing call hands out nothing")
    chk.add_model(tlc.run_model("SolverBuild.tla", "SolverBuildEvenN.cfg", timeout=900), expect_violation="EvenNNeverStored",
                  label="documented counterexample: an even momentum-grid size sits in the configuration unnoticed until a solver is built")
    btraces = [t for g in sbuild for t in g]
    chk.add_validation(tlc.validate("TraceSolverBuild.tla", "TraceSolverBuild.cfg", btraces), btraces, what="solver construction history")
    bouts = {}
    for t in btraces:
        for e in t["ev"]:
            if e["e"] in ("Build", "Solve", "Deton"):
                bouts[e["e"] + ":" + e["out"]] = bouts.get(e["e"] + ":" + e["out"], 0) + 1
    chk.extra.update(solver_build_histories=len(btraces), solver_build_calls=bouts,
                     solver_build_settings_changed=sum(1 for t in btraces for e in t["ev"] if e["e"] == "Set"))
    # the detonation search on scripted pressure functions, against DetonSearch.tla
    for o in ("TRUE", "FALSE"):
        chk.add_model(tlc.run_model("DetonSearch.tla", f"DetonSearch_{o}.cfg", timeout=1200),
                      label=f"detonation scan, onlySmallest={o}: all pressure-sign functions on the lattice, all admissible step sequences")
    dtraces = [t for g in dsearch for t in g]
    if dtraces:
        chk.add_validation(tlc.validate("TraceDetonSearch.tla", "TraceDetonSearch.cfg", dtraces), dtraces, what="detonation search")
    verdicts = {}
    for t in dtraces:
        k_ = t["ev"][-1].get("kind", t["ev"][-1].get("out"))
        verdicts[k_] = verdicts.get(k_, 0) + 1
    reprobes = sum(1 for t in dtraces if any(t["ev"][q]["e"] == "Probe" and t["ev"][q + 1]["e"] == "Probe" and t["ev"][q]["v"] == t["ev"][q + 1]["v"] for q in range(1, len(t["ev"]) - 1)))
    chk.extra.update(detonation_searches_validated=len(dtraces), detonation_verdicts=verdicts, detonation_searches_probing_vmax_twice=reprobes)
    exits = {}
    damp = 0
    for t in ptraces:
        if t["ev"][-1].get("e") != "Exit":
            continue
        key = ("cap" if not t["ev"][-1]["succ"] else "converged", "improved" if any(e.get("improve") for e in t["ev"][1:-1]) else "plain")
        exits[str(key)] = exits.get(str(key), 0) + 1
        damp += int(any(e.get("k", 0) > 0 for e in t["ev"][1:-1]))
    beyond = sum(1 for t in ptraces if t["ev"][-1].get("e") == "Exit" and t["ev"][-1]["passes"] > t["ev"][0]["maxIt"] - 1)
    chk.extra.update(pressure_iterations_validated=len(ptraces), pressure_iteration_exits=exits, pressure_iterations_with_damping=damp,
                     pressure_iterations_beyond_cap=beyond,
                     pressure_iterations_scripted=sum(len(g) for g in scripted))
    kinds = {}
    for tr in traces:
        for ev in tr["ev"]:
            if ev["e"] == "Result":
                kinds[ev["kind"]] = kinds.get(ev["kind"], 0) + 1
    chk.extra.update(results_by_kind=kinds, evaluations_recorded=sum(1 for tr in traces for ev in tr["ev"] if ev["e"] == "Eval"),
                     checker_cmd="tlc WallSolver.tla ; tlc TraceWallSolver.tla")
    chk.rule = ("cells = polynomial model (one-field cubic-quartic, two-field Z2) x nucleation temperature x spatial grid size x errTol x "
                "maxIterations (3 forces the unconverged path) x 0-2 out-of-equilibrium particles with synthetic collision files x call history "
                "(LTE speed, matching/efficiency calls, detonation search, repeated solve); distinct = distinct cell")
    chk.assumptions += ["the recorder wraps EOM.wallPressure from the harness side (no source hook)", "result identity = SHA-256 over every numeric field of WallGoResults"]


def replay(chk, path):
    with open(path) as f:
        tr = json.load(f)
    if tr["cell"].get("kind") == "setup":
        new = setupdrv.scenario({k: v for k, v in tr["cell"].items() if k != "kind"})
        for ev in new["ev"]:
            print(json.dumps(ev)[:300])
        chk.add_validation(tlc.validate("TraceSetup.tla", "TraceSetup.cfg", [new]), [new])
        return chk.finish()
    if tr["cell"].get("kind") == "history":
        b = tr["cell"]["behaviour"]
        evs = manager.execute(b)
        pairs = sorted({(op["p"], "info") for op in b if op["op"] == "Setup" and op["kind"] == "good"} | {(pt, op["c"]) for op in b for pt in _points_of_calls(b, op)})
        ref = [{"e": "Ref", "p": p_, "c": c_, "h": h_} for (p_, c_, h_) in map(manager.fresh, pairs)]
        for ev in ref + evs:
            print(json.dumps(ev)[:300])
        new = {"id": tr["id"], "ev": ref + evs, "cell": tr["cell"]}
        chk.add_validation(tlc.validate("TraceManager.tla", "TraceManager.cfg", [new]), [new])
        return chk.finish()
    new = scenario(tr["cell"])
    for ev in new["ev"]:
        print(json.dumps(ev)[:300])
    vr = tlc.validate("TraceWallSolver.tla", "TraceWallSolver.cfg", [new])
    chk.add_validation(vr, [new])
    return chk.finish()
