"""C03 -- see harness/drivers/hydro.py (shared measurement) and spec/TraceHydro.tla (PROP = "C03")."""
from . import hydrocheck

LEVEL = hydrocheck.LEVELS["C03"]


def run(chk, tier, seed):
    hydrocheck.run(chk, tier, seed, "C03")


def replay(chk, path):
    return hydrocheck.replay(chk, path, "C03")
