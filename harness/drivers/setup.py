"""WallGoManager.setupThermodynamicsHydrodynamics against Setup.tla / TraceSetup.tla.

One scenario = one real set-up call on a manager that already holds the objects of an earlier successful set-up
(so that "what was replaced" can be observed by identity).  The steps are observed from outside: validatePhaseInput,
the template model's findvwLTE / findMatching, FreeEnergy.tracePhase, Thermodynamics.setExtrapolate and
Hydrodynamics.__init__ are wrapped for the duration of the call; optionally a fault is injected at one of the code's
own error exits (template answers None, template LTE raises, epsilon negative, Jouguet velocity not finite) or the
phase input is made inadmissible.  Temperatures in ticks of 1e-4 Tn.  TLC judges the sequence of steps, the
arithmetic of the requested ranges, the arguments handed on, the outcome and what the call left behind.
"""
import logging
import math
import warnings

import numpy as np

from .. import models, pipeline, quant

U = 1e-4


def tk(x):
    return int(round(x / U))


def scenario(sc):
    import WallGo
    from WallGo import hydrodynamicsTemplateModel as HT, freeEnergy as FE, thermodynamics as TH, hydrodynamics as HY, manager as MG

    warnings.filterwarnings("ignore")
    m = models.pipeline_model(sc["model"], u=sc.get("u", 1.0))
    f = sc["cfg"]
    evs = [{"e": "Begin", "cfg": {k: int(v) for k, v in f.items()}}]
    man = WallGo.WallGoManager()
    man.setVerbosity(logging.ERROR)
    c = man.config
    c.configGrid.spatialGridSize, c.configGrid.momentumGridSize = 20, 5
    tol = 10.0 ** (-sc.get("tolD", 6))
    c.configThermodynamics.phaseTracerTol = tol
    man.registerModel(pipeline.make_wallgo_model(m, 0))
    tref = pipeline.tref(m)
    fs = m.field_scale()
    tvs = 0.01 * tref
    scales = WallGo.VeffDerivativeSettings(temperatureVariationScale=tvs, fieldValueVariationScale=[0.3 * fs] * m.nf)

    def phase_info(tn, kind="ok"):
        hi, lo = pipeline.phases(m, tn)
        if kind == "same":
            hi = lo
        elif kind == "order":
            hi, lo = lo, hi
        return WallGo.PhaseInfo(temperature=tn, phaseLocation1=WallGo.Fields(tuple(np.ravel(hi))), phaseLocation2=WallGo.Fields(tuple(np.ravel(lo))))

    # an earlier successful set-up at a neighbouring temperature, default factors
    man.setupThermodynamicsHydrodynamics(phase_info(sc["tn0"] * tref), scales)
    old = (man.phasesAtTn, man.thermodynamics, man.hydrodynamics)
    c.configThermodynamics.tmin, c.configThermodynamics.tmax = f["thMin"] * U, f["thMax"] * U
    c.configHydrodynamics.tmin, c.configHydrodynamics.tmax = f["hyMin"] * U, f["hyMax"] * U
    first = sc.get("firstStep")
    c.configThermodynamics.phaseTracerFirstStep = first
    Tn = sc["tn"] * tref
    fault = sc.get("fault", "none")
    est = {"eps": True, "tpJ": -1, "tmJ": -1, "tpSlow": -1, "calls": 0, "done": False}

    def flush_estimate():
        if not est["done"] and est["calls"] > 0:
            est["done"] = True
            evs.append({"e": "Estimate", "eps": est["eps"], "tpJ": est["tpJ"], "tmJ": est["tmJ"], "tpSlow": est["tpSlow"]})

    o_val, o_lte, o_match = MG.WallGoManager.validatePhaseInput, HT.HydrodynamicsTemplateModel.findvwLTE, HT.HydrodynamicsTemplateModel.findMatching
    o_trace, o_ext, o_hinit = FE.FreeEnergy.tracePhase, TH.Thermodynamics.setExtrapolate, HY.Hydrodynamics.__init__

    def s_val(self, ph):
        try:
            r = o_val(self, ph)
            evs.append({"e": "Validate", "out": "ok"})
            return r
        except WallGo.WallGoPhaseValidationError as ex:
            evs.append({"e": "Validate", "out": "same" if "same" in str(ex.message) else "order"})
            raise

    state = {"tmpl": None}

    def s_lte(self):
        if state["tmpl"] is not None:          # only the template model built inside initTemperatureRange is observed
            return o_lte(self)
        state["tmpl"] = self
        try:
            if fault == "lteRaises":
                raise WallGo.WallGoError("injected: template model could not find the LTE velocity", {})
            r = o_lte(self)
        except WallGo.WallGoError:
            evs.append({"e": "TemplateLTE", "ok": False})
            raise
        evs.append({"e": "TemplateLTE", "ok": True})
        if fault == "epsNegative":
            self.epsilon = -abs(self.epsilon)
        if self.epsilon < 0:
            est["eps"] = False
            est["calls"] = 1
            flush_estimate()
        return r

    def s_match(self, vw):
        r = o_match(self, vw)
        if self is not state["tmpl"] or est["done"]:
            return r
        est["calls"] += 1
        which = "slow" if vw < 0.01 else "J"
        if (fault == "noneJ" and which == "J") or (fault == "noneSlow" and which == "slow") or fault == "noneBoth":
            r = (None, None, None, None)
        if which == "J":
            est["tpJ"] = -1 if r[2] is None else tk(r[2] / Tn)
            est["tmJ"] = -1 if r[3] is None else tk(r[3] / Tn)
        else:
            est["tpSlow"] = -1 if r[2] is None else tk(r[2] / Tn)
        return r

    def s_trace(self, TMin, TMax, dT, rTol=1e-6, spinodal=True, paranoid=True, phaseTracerFirstStep=None):
        flush_estimate()
        th = man.thermodynamics
        phase = "high" if self is th.freeEnergyHigh else ("low" if self is th.freeEnergyLow else "other")
        evs.append({"e": "Trace", "phase": phase, "lo": tk(TMin / Tn), "hi": tk(TMax / Tn), "dTt": int(round(dT / tvs * 1e6)), "tolD": sc.get("tolD", 6),
                    "rtolSame": bool(rTol == tol), "firstStepSame": bool(phaseTracerFirstStep == first)})
        return o_trace(self, TMin, TMax, dT, rTol=rTol, spinodal=spinodal, paranoid=paranoid, phaseTracerFirstStep=phaseTracerFirstStep)

    def s_ext(self):
        evs.append({"e": "SetExtrapolate"})
        return o_ext(self)

    def s_hinit(self, thermodynamics, tmax, tmin, rtol=1e-6, atol=1e-10):
        o_hinit(self, thermodynamics, tmax, tmin, rtol, atol)
        evs.append({"e": "InitHydro", "tmax": tk(tmax), "tmin": tk(tmin), "sameThermo": bool(thermodynamics is man.thermodynamics),
                    "tolsSame": bool(rtol == c.configHydrodynamics.relativeTol and atol == c.configHydrodynamics.absoluteTol)})
        if fault == "vJnan":
            self.vJ = float("nan")
        evs.append({"e": "Jouguet", "ok": bool(np.isfinite(self.vJ) and 0 <= self.vJ <= 1)})

    MG.WallGoManager.validatePhaseInput, HT.HydrodynamicsTemplateModel.findvwLTE, HT.HydrodynamicsTemplateModel.findMatching = s_val, s_lte, s_match
    FE.FreeEnergy.tracePhase, TH.Thermodynamics.setExtrapolate, HY.Hydrodynamics.__init__ = s_trace, s_ext, s_hinit
    try:
        try:
            man.setupThermodynamicsHydrodynamics(phase_info(Tn, sc.get("input", "ok")), scales)
            out = "ok"
        except Exception as ex:
            out = type(ex).__name__
    finally:
        MG.WallGoManager.validatePhaseInput, HT.HydrodynamicsTemplateModel.findvwLTE, HT.HydrodynamicsTemplateModel.findMatching = o_val, o_lte, o_match
        FE.FreeEnergy.tracePhase, TH.Thermodynamics.setExtrapolate, HY.Hydrodynamics.__init__ = o_trace, o_ext, o_hinit
    evs.append({"e": "End", "out": out, "phasesNew": bool(man.phasesAtTn is not old[0]), "thermoNew": bool(man.thermodynamics is not old[1]),
                "hydroNew": bool(man.hydrodynamics is not old[2])})
    sid = "setup_{model}_tn{tn}_{fault}_{inp}_th{a}-{b}_hy{c_}-{d}_tol{t}".format(model=sc["model"], tn=sc["tn"], fault=fault, inp=sc.get("input", "ok"),
                                                                                  a=f["thMin"], b=f["thMax"], c_=f["hyMin"], d=f["hyMax"], t=sc.get("tolD", 6))
    return {"id": sid, "ev": evs, "cell": dict(sc, kind="setup")}


def scenarios(tier, seed):
    rng = np.random.default_rng(seed)
    out = []
    menu = dict(thMin=[8000, 9000, 10000], thMax=[10000, 11000, 12000], hyMin=[100, 5000], hyMax=[20000, 100000])
    default = dict(thMin=8000, thMax=12000, hyMin=100, hyMax=100000)
    faults = ["none", "noneJ", "noneSlow", "noneBoth", "lteRaises", "epsNegative", "vJnan"]
    for flt in faults:
        out.append(dict(model="one", tn=2.1, tn0=2.12, cfg=default, fault=flt))
    for inp in ("same", "order"):
        out.append(dict(model="one", tn=2.1, tn0=2.12, cfg=default, input=inp))
    out.append(dict(model="two", tn=0.92, tn0=0.925, cfg=dict(thMin=9000, thMax=11000, hyMin=5000, hyMax=20000), fault="none", tolD=8))
    out.append(dict(model="two", tn=0.92, tn0=0.925, cfg=dict(thMin=9000, thMax=11000, hyMin=5000, hyMax=20000), fault="noneBoth", firstStep=0.05))
    n = 0 if tier == "quick" else 36
    for q in range(n):
        cfg = {k: int(rng.choice(v)) for k, v in menu.items()}
        mdl = ["one", "two"][q % 2]
        out.append(dict(model=mdl, tn=[2.1, 0.92][q % 2] + [0.0, 0.01][(q // 2) % 2] * (1 if mdl == "two" else 5), tn0=[2.12, 0.925][q % 2], cfg=cfg,
                        fault=str(rng.choice(faults)), tolD=int(rng.choice([4, 6, 8])), u=float(rng.choice([1.0, 0.01])),
                        **({"firstStep": 0.02} if q % 5 == 0 else {})))
    return out
