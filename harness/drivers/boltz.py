"""Shared measurement code for the Boltzmann properties C12 (solver) and C13 (moments).

Jobs come from TLC (Boltzmann.tla); each is executed on the real BoltzmannSolver with
  * synthetic particles (mass^2 = y^2 phi^2 / 2, either statistics),
  * synthetic, diagonally dominant collision operators (built in the Cardinal momentum basis and
    converted with CollisionArray.changeBasis -- the conversion itself is property C14),
  * tanh-shaped temperature / velocity / field backgrounds.
"""
import json
import math
import warnings
import zlib

import numpy as np

from .. import quant
from .c16 import cheb_matrix, nodes, mono_weighted_integral

LVAL, TVAL = 5.0, 100.0


def particles(WG, n):
    ps = []
    for i in range(n):
        y = [0.9, 0.5, 0.3][i]
        ps.append(WG.Particle(["top", "W", "Z"][i], i, (lambda yy: (lambda f: 0.5 * yy * yy * f.getField(0) ** 2))(y),
                              (lambda yy: (lambda f: np.transpose([yy * yy * f.getField(0)])))(y),
                              "Fermion" if i % 2 == 0 else "Boson", [12, 9, 3][i]))
    return ps


def grid_of(WG, M, N):
    return WG.Grid3Scales(M, N, 3 * LVAL / TVAL * 10, 3 * LVAL / TVAL * 10, LVAL / TVAL * 10, TVAL, 0.75, 0.1)


def background(WG, grid, bg):
    chi, _, _ = grid.getCompactCoordinates(endpoints=True)
    xi = grid.getCoordinates(endpoints=True)[0]
    L = grid.wallThickness
    t = np.tanh(xi / L)          # +-1 at the end points
    T = TVAL * (1 + (0.05 * t if bg in ("T", "all") else 0.0)) * np.ones_like(t)
    v = (-0.5 + (0.08 * t if bg in ("v", "all") else 0.0)) * np.ones_like(t)
    phi = (60.0 * (1 - t) / 2 if bg in ("field", "all") else 40.0) * np.ones_like(t)
    fields = WG.Fields.castFromNumpy(phi[:, None])
    return WG.BoltzmannBackground(-0.5, v, fields, T)


def collision(WG, grid, parts, basisN, rng):
    n = grid.N - 1
    P = len(parts)
    ca = WG.CollisionArray(grid, "Cardinal", parts)
    data = 0.05 * rng.normal(size=(P, n, n, P, n, n))
    for a in range(P):
        for i in range(n):
            for j in range(n):
                data[a, i, j, a, i, j] += 1.0 + 0.3 * rng.random()
    data *= 0.1 / TVAL        # collision term ~ T^2 * C * deltaF against Liouville ~ p * d/dxi
    ca.polynomialData = WG.Polynomial(data, grid, ("Array", "Cardinal", "Cardinal", "Array", "Cardinal", "Cardinal"),
                                      WG.CollisionArray.AXIS_TYPES, False)
    ca.changeBasis(basisN)
    return ca


def solver(WG, M, N, P, bM, bN, deriv, bg, seed, shared=None):
    """shared: a dict in which ONE BoltzmannBackground object per job is kept and handed to every solver of that job (the natural
    way to compare discretisations of one background); the caller's object must come out of setBackground as it went in"""
    rng = np.random.default_rng(seed)
    grid = grid_of(WG, M, N)
    parts = particles(WG, P)
    bs = WG.BoltzmannSolver(grid, bM, bN, deriv)
    bs.updateParticleList(parts)
    if shared is None:
        bs.setBackground(background(WG, grid, bg))
    else:
        if "bg" not in shared:
            shared["bg"] = background(WG, grid, bg)
            shared["copy"] = (shared["bg"].velocityWall if hasattr(shared["bg"], "velocityWall") else None, np.array(shared["bg"].velocityProfile, copy=True),
                              np.array(shared["bg"].temperatureProfile, copy=True), np.array(shared["bg"].fieldProfiles, copy=True))
        bs.setBackground(shared["bg"])
        b = shared["bg"]
        shared["untouched"] = bool(shared.get("untouched", True) and np.array_equal(b.velocityProfile, shared["copy"][1]) and np.array_equal(b.temperatureProfile, shared["copy"][2])
                                   and np.array_equal(b.fieldProfiles, shared["copy"][3]) and bs.background is not b)
    bs.setCollisionArray(collision(WG, grid, parts, bN, rng))
    return bs, grid, parts


def to_cardinal(deltaF, M, N, bM, bN):
    """values of the deviation at the grid nodes (own transformation matrices)"""
    f = np.asarray(deltaF, float)
    if bM == "Chebyshev":
        Tz = cheb_matrix(nodes(M)[1:M], np.arange(2, M + 1), "z", False)
        f = np.einsum("xi,aijk->axjk", Tz, f)
    if bN == "Chebyshev":
        Tp = cheb_matrix(nodes(N)[1:N], np.arange(2, N + 1), "pz", False)
        Tq = cheb_matrix(nodes(N - 1)[0:N - 1], np.arange(1, N), "pp", False)
        f = np.einsum("yj,zk,aijk->aiyz", Tp, Tq, f)
    return f


def deltas_array(res):
    d = res.Deltas
    return np.stack([np.asarray(x.coefficients, float) for x in (d.Delta00, d.Delta02, d.Delta20, d.Delta11)])


def job_solve(WG, job, seed):
    c = job["c"]
    ev = {"e": "solve", "c": c}
    bs, grid, parts = solver(WG, c["M"], c["N"], c["P"], c["bM"], c["bN"], c["deriv"], c["bg"], seed)
    op, src, _, _ = bs.buildLinearEquations()
    dF = bs.solveBoltzmannEquations()
    if c["bg"] == "hom":
        # "vanishes identically" up to the rounding of the spectral derivative of constant profiles:
        # measured against the deviation produced by the inhomogeneous background of the same cell
        ref, _, _ = solver(WG, c["M"], c["N"], c["P"], c["bM"], c["bN"], c["deriv"], "all", seed)
        scale_ref = float(np.max(np.abs(to_cardinal(ref.solveBoltzmannEquations(), c["M"], c["N"], c["bM"], c["bN"]))))
        ev["dZero"] = quant.digits(float(np.max(np.abs(to_cardinal(dF, c["M"], c["N"], c["bM"], c["bN"])))) / scale_ref)
    else:
        ev["dZero"] = 0
    r = op @ dF.reshape(-1) - src
    scale = np.abs(op) @ np.abs(dF.reshape(-1)) + np.abs(src)
    ev["dRes"] = quant.digits(np.max(np.abs(r) / np.maximum(scale, 1e-300))) if np.any(scale > 0) else 16
    ev["shapeOK"] = bool(dF.shape == (c["P"], c["M"] - 1, c["N"] - 1, c["N"] - 1))
    return ev


def job_fdhist(WG, job, seed):
    """two spectral solves of one solver with EOM.getBoltzmannFiniteDifference in between"""
    M, N, P, bN = job["M"], job["N"], job["P"], job["bN"]
    ev = {"e": "fdhist", "M": M, "N": N, "P": P, "bN": bN}
    bs, grid, parts = solver(WG, M, N, P, "Cardinal", bN, "Spectral", "all", seed)
    d1 = deltas_array(bs.getDeltas())

    class Fake:
        pass

    fake = Fake()
    fake.boltzmannSolver = bs
    fd = deltas_array(WG.EOM.getBoltzmannFiniteDifference(fake))
    d2 = deltas_array(bs.getDeltas())
    ev["same"] = bool(np.array_equal(d1, d2))
    ev["basisKept"] = bool(bs.collisionArray.getBasisType() == bN and bs.basisN == bN and bs.derivatives == "Spectral")
    ev["fdFinite"] = bool(np.all(np.isfinite(fd)) and fd.shape == d1.shape)
    return ev


def job_basis(WG, job, seed):
    M, N, P, bg = job["M"], job["N"], job["P"], job["bg"]
    ev = {"e": "basis", "M": M, "N": N, "P": P, "bg": bg, "cmp": []}
    ref = None
    shared = {}
    for bM, bN in (("Cardinal", "Cardinal"), ("Cardinal", "Chebyshev"), ("Chebyshev", "Cardinal"), ("Chebyshev", "Chebyshev")):
        bs, grid, parts = solver(WG, M, N, P, bM, bN, "Spectral", bg, seed, shared=shared)
        res = bs.getDeltas()
        f = to_cardinal(res.deltaF, M, N, bM, bN)
        D = deltas_array(res)
        if ref is None:
            ref = (f, D, res.truncationError)
            continue
        ev["cmp"].append({"bM": bM, "bN": bN, "dF": quant.reldigits(f, ref[0]), "dDeltas": quant.reldigits(D, ref[1]),
                          "dTrunc": quant.reldigits(res.truncationError, ref[2])})
    ev["bgUntouched"] = bool(shared.get("untouched", False))
    return ev


def job_fd(WG, job, seed):
    N, P, bg = job["N"], job["P"], job["bg"]
    ev = {"e": "fd", "N": N, "P": P, "bg": bg, "src": [], "liou": []}
    for M in job["chain"]:
        out = {}
        for deriv in ("Spectral", "Finite Difference"):
            bs, grid, parts = solver(WG, M, N, P, "Cardinal", "Cardinal", deriv, bg, seed)
            op, src, liou, coll = bs.buildLinearEquations()
            # smooth test deviation: product of low-order polynomials vanishing at the ends, sampled at the nodes
            chi, rz, rp = grid.getCompactCoordinates()
            f = ((1 - chi**2) * (0.3 + chi))[None, :, None, None] * ((1 - rz**2) * (1 + 0.5 * rz))[None, None, :, None] * ((1 - rp) * (1 + 0.2 * rp))[None, None, None, :]
            f = np.repeat(f, P, axis=0) * np.arange(1, P + 1)[:, None, None, None]
            Lf = np.einsum("aijkbxyz,bxyz->aijk", liou, f)
            out[deriv] = (src, Lf)
        s_err = np.linalg.norm(out["Finite Difference"][0] - out["Spectral"][0]) / np.linalg.norm(out["Spectral"][0])
        l_err = np.linalg.norm(out["Finite Difference"][1] - out["Spectral"][1]) / np.linalg.norm(out["Spectral"][1])
        ev["src"].append(int(round(-100 * math.log10(max(s_err, 1e-16)))))
        ev["liou"].append(int(round(-100 * math.log10(max(l_err, 1e-16)))))
    return ev


def job_moment(WG, job, seed):
    N = job["N"]
    M = 6
    scale = [0.01, 1.0, 30.0, 1e3][job["scale"]]         # momentum scale T0
    gk = job.get("grid", "Grid")
    bM, bN = job.get("bM", "Cardinal"), job.get("bN", "Cardinal")
    ev = {"e": "moment", "N": N, "scale": job["scale"], "mass": job["mass"], "grid": gk, "bM": bM, "bN": bN, "hist": job.get("hist", "fresh")}
    rng = np.random.default_rng(seed + 7 * N + job["scale"] + 31 * job["mass"])
    # same momentum map on both grid classes (p_z = 2 T0 atanh(rho_z), p_par = -T0 log((1-rho_par)/2)); Grid3Scales has its own
    # implementation of the Jacobians
    s0 = scale if job.get("hist", "fresh") == "fresh" else 1.3 * scale
    grid = WG.Grid(M, N, 1.0, s0) if gk == "Grid" else WG.Grid3Scales(M, N, 3.0, 2.0, 1.0, s0, 0.75, 0.1)
    if s0 != scale:
        grid.changeMomentumFalloffScale(scale)       # the public way to follow an updated plasma temperature
    parts = particles(WG, 2)
    bs = WG.BoltzmannSolver(grid, bM, bN)
    bs.updateParticleList(parts)
    getDeltasNodal = bs.getDeltas

    def from_cardinal(f):
        """nodal values -> coefficients in the solver's bases (inverse of to_cardinal, own matrices)"""
        f = np.asarray(f, float)
        if bM == "Chebyshev":
            Tz = cheb_matrix(nodes(M)[1:M], np.arange(2, M + 1), "z", False)
            f = np.einsum("xi,aijk->axjk", np.linalg.inv(Tz), f)
        if bN == "Chebyshev":
            Tp = cheb_matrix(nodes(N)[1:N], np.arange(2, N + 1), "pz", False)
            Tq = cheb_matrix(nodes(N - 1)[0:N - 1], np.arange(1, N), "pp", False)
            f = np.einsum("yj,zk,aijk->aiyz", np.linalg.inv(Tp), np.linalg.inv(Tq), f)
        return f

    class _BS:      # the rest of this function speaks nodal values; the solver is handed its own bases
        def getDeltas(self, f):
            return getDeltasNodal(from_cardinal(f))

    chi = grid.getCompactCoordinates(endpoints=True)[0]
    # mass profile: massless / constant / varying through the wall (phi in units of the momentum scale)
    phi = [0.0 * chi, 0.7 * scale * np.ones_like(chi), scale * (1 - chi)][job["mass"]]
    fields = WG.Fields.castFromNumpy(phi[:, None])
    carr = collision(WG, grid, parts, bN, rng)
    # call history on this one solver, as in every iteration of the wall solver: moments were already taken once on ANOTHER
    # background (other masses, temperature, velocity) before the background of this cell is installed
    phi0 = 1.3 * scale * (1 + chi)
    bs.setBackground(WG.BoltzmannBackground(-0.55, -0.55 * np.ones_like(chi), WG.Fields.castFromNumpy(phi0[:, None]), 0.8 * scale * np.ones_like(chi)))
    bs.setCollisionArray(carr)                                       # getDeltas also evaluates the linearisation criteria
    getDeltasNodal(from_cardinal(1e-3 * rng.normal(size=(len(parts), M - 1, N - 1, N - 1))))
    ev["prior"] = True
    bs.setBackground(WG.BoltzmannBackground(-0.4, -0.4 * np.ones_like(chi), fields, scale * np.ones_like(chi)))
    bs = _BS()
    rz, rp = nodes(N)[1:N], nodes(N - 1)[0:N - 1]
    pz = 2 * scale * np.arctanh(rz)
    pp = -scale * np.log((1 - rp) / 2)
    Jz, Jp = 2 * scale / (1 - rz**2), scale / (1 - rp)
    msq = np.array([np.asarray(p.msqVacuum(fields))[1:-1] for p in parts])            # (P, M-1)
    E = np.sqrt(msq[:, :, None, None] + pz[None, None, :, None] ** 2 + pp[None, None, None, :] ** 2)
    W = {"D00": np.ones_like(E), "D02": (pz**2)[None, None, :, None] * np.ones_like(E), "D20": E**2,
         "D11": E * pz[None, None, :, None]}
    base = Jz[None, None, :, None] * Jp[None, None, None, :] * pp[None, None, None, :] / (4 * np.pi**2 * E)
    names = ["D00", "D02", "D20", "D11"]
    table = {m: {} for m in names}
    fsave = {}
    for w in names:
        # q(rz, rp): random polynomial such that (1-rz^2)(1-rp^2) q stays in the exactness class
        dz, dp = max(0, min(3, 2 * N - 3)), max(0, min(3, 2 * (N - 1) - 3))
        q = rng.normal(size=(dz + 1, dp + 1))
        qv = np.polynomial.polynomial.polygrid2d(rz, rp, q)
        num = qv * np.sqrt(1 - rz**2)[:, None] * np.sqrt(1 - rp**2)[None, :]
        den = base * W[w]
        with np.errstate(divide="ignore", invalid="ignore"):
            f = np.where(np.abs(den) > 0, num[None, None, :, :] / den, 0.0)
        f = np.where(np.isfinite(f), f, 0.0)
        fsave[w] = f
        exact = 0.0
        for a in range(dz + 1):
            for b in range(dp + 1):
                ca = np.zeros(a + 1)
                ca[a] = 1.0
                cb = np.zeros(b + 1)
                cb[b] = 1.0
                exact += q[a, b] * mono_weighted_integral(np.polynomial.Polynomial(ca)) * mono_weighted_integral(np.polynomial.Polynomial(cb))
        res = bs.getDeltas(f)
        D = dict(zip(names, deltas_array(res)))
        for m in names:
            table[m][w] = quant.reldigits(D[m], exact * np.ones_like(D[m]))
    ev["table"] = table
    f1, f2 = fsave["D00"], fsave["D11"]
    D1, D2, D3 = deltas_array(bs.getDeltas(f1)), deltas_array(bs.getDeltas(f2)), deltas_array(bs.getDeltas(2 * f1 - 3 * f2))
    ev["dLinear"] = quant.reldigits(D3, 2 * D1 - 3 * D2)
    # energy-momentum components: deltaToTmunu vs Lorentz-boosted direct integrals
    res = bs.getDeltas(f1 + 0.5 * f2)
    D = dict(zip(names, deltas_array(res)))

    class Fake:
        pass

    fake = Fake()
    fake.particles = parts
    worst = 16
    vmid = -0.4
    g2 = 1 / (1 - vmid**2)
    for idx in range(M - 1):
        fp = fields.getFieldPoint(idx + 1)
        T30, T33 = WG.EOM.deltaToTmunu(fake, idx, fp, vmid, res.Deltas)
        e30 = e33 = 0.0
        for i, p in enumerate(parts):
            t00, t33p, t03 = D["D20"][i, idx], D["D02"][i, idx], D["D11"][i, idx]
            e30 += p.totalDOFs * g2 * ((t00 + t33p) * vmid + t03 * (1 + vmid**2))
            e33 += p.totalDOFs * g2 * (t33p + vmid**2 * t00 + 2 * vmid * t03)
        sc = max(abs(e30), abs(e33), 1e-300)
        worst = min(worst, quant.digits(max(abs(T30 - e30), abs(T33 - e33)) / sc))
    ev["dTmunu"] = worst
    return ev


def run_job(args):
    job, seed = args
    import WallGo as WG

    warnings.filterwarnings("ignore")
    key = json.dumps(job, sort_keys=True)
    try:
        ev = {"solve": job_solve, "basis": job_basis, "fd": job_fd, "fdhist": job_fdhist, "moment": job_moment}[job["kind"]](WG, job, seed)
        ev["out"] = "ok"
    except Exception as ex:  # judged by TLC
        ev = {"e": job["kind"], "out": type(ex).__name__, "msg": str(ex)[:200]}
        ev.update({k: v for k, v in job.items() if k not in ("active", "kind")})
    return {"id": job["kind"] + "_" + hex(zlib.crc32(key.encode()))[2:], "ev": [ev], "cell": {k: v for k, v in job.items() if k != "active"}, "job": job}
