"""EOM.findWallVelocityDetonation on scripted pressure functions (DetonSearch.tla / TraceDetonSearch.tla).

The real search routine runs with its two callees replaced: wallPressure returns a scripted P(vw), solveWall records the
bracket it is handed.  What is validated is the routine's own logic: step bounds, which brackets go to the root search,
that none is overlooked, and the verdict when there is none.
"""
import warnings

import numpy as np

from .. import models, pipeline, quant

VT = 1e-7


def vt(v):
    return quant.ticks(v, VT)


def scripted_searches(args):
    seed, nscripts = args
    import WallGo

    warnings.filterwarnings("ignore")
    rng = np.random.default_rng(seed)
    m = models.pipeline_model("two")
    man, Tn = pipeline.build_manager(m, 0.92)
    hy = man.hydrodynamics
    st = WallGo.WallSolverSettings(bIncludeOffEquilibrium=False, meanFreePathScale=50.0, wallThicknessGuess=5.0)
    eom = man.setupWallSolver(st).eom
    traces = []
    for j in range(nscripts):
        vmin = float(hy.vJ + rng.choice([1e-3, 0.01, 0.05]))
        vmax = float(rng.choice([0.99, 0.9, min(0.99, vmin + 0.1)]))
        if not vmin < vmax:
            continue
        nmin, nmax = int(rng.choice([3, 5, 8])), int(rng.choice([10, 20, 40]))
        only = bool(rng.random() < 0.5)
        # scripted pressure: offset + slope + bumps; scale and sign patterns vary (no root, one, several, touching zero)
        a = float(rng.choice([-1.0, 1.0, 0.2, -0.2, 0.0])) * float(rng.choice([1.0, 1e3, 1e-3]))
        b = float(rng.normal()) * 3 * abs(a if a else 1.0)
        c = float(rng.choice([0.0, 0.0, 1.0, 3.0])) * abs(a if a else 1.0)
        w = float(rng.choice([3.0, 9.0, 25.0]))
        ph = float(rng.uniform(0, 6.28))

        def P(v, a=a, b=b, c=c, w=w, ph=ph, vmin=vmin, vmax=vmax):
            x = (v - vmin) / (vmax - vmin)
            p = a + b * (x - 0.5) + c * np.sin(w * x + ph)
            return p if p != 0.0 else 1e-13          # an exactly vanishing pressure is an artefact of a script, not of a solver

        evs = [{"e": "Setup", "vmin": vt(vmin), "vmax": vt(vmax), "smin": vt((vmax - vmin) / (nmax - 1)), "smax": vt((vmax - vmin) / (nmin - 1)), "only": only}]

        def wp(vw, wallParams, atol=None, rtol=None, br=None):
            p = float(P(vw))
            evs.append({"e": "Probe", "v": vt(vw), "s": quant.sign(p)})
            return (p, wallParams, br, None, None)

        def sw(v2, v3, wallParams2, r1=None, r2=None):
            evs.append({"e": "Root", "lo": vt(v2), "hi": vt(v3)})
            r = WallGo.WallGoResults()
            from WallGo.results import ESolutionType
            r.setSuccessState(True, ESolutionType.DETONATION, "scripted")
            return r

        eom.wallPressure, eom.solveWall = wp, sw
        try:
            out = eom.findWallVelocityDetonation(vmin, vmax, nbrPointsMin=nmin, nbrPointsMax=nmax, onlySmallest=only)
            kinds = [str(r.solutionType).split(".")[-1] for r in out]
            kind = "ROOTS" if kinds and all(k == "DETONATION" for k in kinds) else (kinds[0] if len(kinds) == 1 else "MIXED")
            evs.append({"e": "Result", "kind": kind, "n": len(out)})
        except Exception as ex:
            evs.append({"e": "Exception", "out": type(ex).__name__, "msg": str(ex)[:200]})
        finally:
            del eom.wallPressure, eom.solveWall
        traces.append({"id": f"deton_s{seed}_{j}", "ev": evs, "cell": {"kind": "detonScript", "seed": seed, "j": j, "only": only, "nmin": nmin, "nmax": nmax}})
    return traces
