"""Shared pipeline runner for C07 (units) and C08 (field relabelling): one full LTE pipeline run
(setup -> wallSpeedLTE -> solveWall) per representation, everything quantised to integer ticks."""
import math
import warnings

import numpy as np

from .. import models, pipeline, quant

SHIFTS = [(0.0, 0.0, 0.0), (0.3, -0.2, 0.15), (-1.0, 0.5, -0.4)]      # translation vectors in units of the field scale (first nf components)


def run_one(args):
    import WallGo

    warnings.filterwarnings("ignore")
    rep = args
    ev = {"e": "Run", "rep": {k: v for k, v in rep.items() if k != "g"}}
    if "g" in rep:
        ev["g"] = rep["g"]
    try:
        u = rep.get("u", 1.0)
        kw = {}
        if "g" in rep:
            g = rep["g"]
            base = models.pipeline_model(rep["model"])
            fs = base.field_scale()
            nf = base.nf
            kw = dict(perm=tuple(p - 1 for p in g["perm"]), sign=tuple(g["sign"]), shift=tuple(SHIFTS[g["shift"]][j] * fs for j in range(nf)))
            ev["shiftTicks"] = [quant.ticks(SHIFTS[g["shift"]][j], 1e-5) for j in range(nf)]
        m = models.pipeline_model(rep["model"], u=u, **kw)
        tight = rep.get("setting") == "tight"
        errTol = 1e-4 if tight else 1e-3
        man, Tn = pipeline.build_manager(m, rep["tn"], M=rep.get("M", 40 if tight else 20), N=5,     # tight: also a grid on which the discretisation error (5e-4 in vw at M = 20) is below errTol errTol=errTol, tracerTol=1e-8 if tight else 1e-6,
                                         pressRelErrTol=0.01 if tight else 0.1)      # the pressure iteration's own tolerance moves vw by a few 1e-4 at 0.1
        hy, th = man.hydrodynamics, man.thermodynamics
        fs = m.field_scale()
        ev["smallUnits"] = bool(Tn < 0.15)          # description of the input: units in which scipy's absolute ODE tolerance shapes the tracer's steps
        vl = float(man.wallSpeedLTE())
        ev.update(errTol=quant.ticks(errTol, 1e-7), vJ=quant.ticks(hy.vJ, 1e-7), alN=quant.ticks(hy.template.alN, 1e-7),
                  vLTE=quant.ticks(vl, 1e-7), lte="one" if vl == 1 else ("zero" if vl == 0 else "root"))
        fH, fL = th.freeEnergyHigh, th.freeEnergyLow
        ev["ranges"] = [quant.ticks(x / Tn, 1e-6) for x in (fH.minPossibleTemperature[0], fH.maxPossibleTemperature[0], fL.minPossibleTemperature[0], fL.maxPossibleTemperature[0])]
        ev["flags"] = [bool(fH.minPossibleTemperature[1]), bool(fH.maxPossibleTemperature[1]), bool(fL.minPossibleTemperature[1]), bool(fL.maxPossibleTemperature[1])]
        ev["phaseHigh"] = [quant.ticks(x / fs, 1e-5) for x in np.ravel(man.phasesAtTn.phaseLocation1)]
        ev["phaseLow"] = [quant.ticks(x / fs, 1e-5) for x in np.ravel(man.phasesAtTn.phaseLocation2)]
        res = man.solveWall(WallGo.WallSolverSettings(bIncludeOffEquilibrium=False, meanFreePathScale=50.0, wallThicknessGuess=5.0))
        kind = "VELOCITY" if (res.success and res.wallVelocity is not None) else ("RUNAWAY" if res.success else "ERROR")
        ev.update(kind=kind, succ=bool(res.success), type=str(res.solutionType).split(".")[-1])
        dim_ok = True
        if kind == "VELOCITY":
            w = np.asarray(res.wallWidths, float)
            o = np.asarray(res.wallOffsets, float)
            ev.update(vw=quant.ticks(res.wallVelocity, 1e-7), Tp=quant.ticks(res.temperaturePlus / Tn, 1e-6), Tm=quant.ticks(res.temperatureMinus / Tn, 1e-6),
                      widths=[quant.ticks(x * Tn, 1e-4) for x in w], offsets=[quant.ticks(x, 1e-4) for x in o],
                      centres=[quant.ticks(-oo * ww * Tn, 1e-4) for oo, ww in zip(o, w)])
            # dimensionful outputs: T+- ~ u, widths ~ 1/u, field profiles ~ u (checked through their dimensionless ticks above);
            # here: the profiles returned span the two phases in the run's own units
            fp = np.asarray(res.fieldProfiles, float)
            lo, hi = np.ravel(man.phasesAtTn.phaseLocation2), np.ravel(man.phasesAtTn.phaseLocation1)
            dim_ok = bool(np.all(np.abs(fp[0] - lo) < 0.05 * fs + 1e-3 * np.abs(lo)) or np.all(np.abs(fp[0] - lo) < 0.2 * fs)) and bool(np.all(np.isfinite(fp)))
        else:
            ev.update(vw=-1, Tp=0, Tm=0, widths=[], offsets=[], centres=[])
        ev["dimOK"] = dim_ok
        ev["out"] = "ok"
    except Exception as ex:
        ev["out"] = type(ex).__name__
        ev["msg"] = str(ex)[:200]
        for k, v in dict(kind="EXC", succ=False, type="-", flags=[], lte="-", vJ=0, alN=0, vLTE=0, ranges=[], errTol=0, vw=-1, Tp=0, Tm=0,
                         widths=[], offsets=[], centres=[], phaseHigh=[0, 0], phaseLow=[0, 0], dimOK=False, smallUnits=False).items():
            ev.setdefault(k, v)
    return ev
