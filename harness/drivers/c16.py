"""C16 -- spectral polynomial calculus is exact on the polynomial space of the grid.

TLC enumerates every case (M, N, descriptor tuple, operation, axes) of PolyIndex.tla and
checks the exact integer facts (lengths = order-set sizes, restricted basis functions
vanish at dropped nodes, weights, descriptor algebra).  Every case is executed on the real
WallGo.Polynomial with random polynomials built independently of WallGo (monomial form,
own Chebyshev matrices); TLC judges the recorded outcome against TracePolyIndex.tla.
"""
import json
import math
import os
import random
import zlib
from multiprocessing import Pool

import numpy as np
from numpy.polynomial import Polynomial as NP

from .. import quant, tlc

LEVEL = "model_checking"


def Kof(M, N, d):
    return {"z": M, "pz": N, "pp": N - 1}[d]


def kept_idx(M, N, d, ep):
    K = Kof(M, N, d)
    if ep:
        return np.arange(K + 1)
    return np.arange(0, K) if d == "pp" else np.arange(1, K)


def orders(M, N, d, ep):
    K = Kof(M, N, d)
    if ep:
        return np.arange(K + 1)
    return np.arange(1, K + 1) if d == "pp" else np.arange(2, K + 1)


def nodes(K):
    return -np.cos(np.pi * np.arange(K + 1) / K)


def cheb_matrix(x, n, d, ep):
    """own restricted Chebyshev basis T_n(x) - r_n(x), by the cosine formula"""
    x = np.asarray(x, float)[:, None]
    n = np.asarray(n)[None, :]
    T = np.cos(n * np.arccos(np.clip(x, -1, 1)))
    if ep:
        return T
    if d == "pp":
        return T - 1
    return T - np.where(n % 2 == 0, 1.0, x)


def bfactor(d, ep):
    if ep:
        return NP([1.0])
    return NP([1.0, -1.0]) if d == "pp" else NP([1.0, 0.0, -1.0])


def mono_weighted_integral(g):
    """int_{-1}^{1} g(x) sqrt(1-x^2) dx for numpy Polynomial g (closed form per monomial)"""
    tot = 0.0
    for m, c in enumerate(g.coef):
        if m % 2 == 0 and c != 0.0:
            k = m // 2
            tot += c * math.pi * math.factorial(m) / (2 ** (m + 1) * math.factorial(k) * math.factorial(k + 1))
    return tot


class Factor:
    """one factor f(x) of a separable term along a polynomial axis, or a vector on an Array axis"""

    def __init__(self, rng, M, N, a):
        self.a = a
        self.poly = a["basis"] != "Array"
        if not self.poly:
            self.vec = rng.uniform(-1, 1, a["len"])
            return
        d, ep = a["dir"], a["ep"]
        self.K = Kof(M, N, d)
        B = bfactor(d, ep)
        maxdeg = self.K - B.degree()
        self.deg = int(rng.integers(0, maxdeg + 1))
        c = rng.uniform(-1, 1, self.deg + 1)
        c[-1] = c[-1] + (0.5 if c[-1] >= 0 else -0.5)
        self.f = B * NP(c)
        self.degP = self.f.degree()
        self.x = nodes(self.K)
        self.kept = kept_idx(M, N, d, ep)
        self.ords = orders(M, N, d, ep)

    def coefvec(self, basis=None):
        if not self.poly:
            return self.vec
        basis = basis or self.a["basis"]
        vals = self.f(self.x[self.kept])
        if basis == "Cardinal":
            return vals
        A = cheb_matrix(self.x[self.kept], self.ords, self.a["dir"], self.a["ep"])
        return np.linalg.solve(A, vals)

    def deriv_nodes(self):
        return self.f.deriv()(self.x)

    def at(self, pts):
        return self.f(pts)


def outer(vecs):
    t = np.array(1.0)
    for v in vecs:
        t = np.multiply.outer(t, v)
    return t


def descr_of(P):
    out = []
    for i in range(P.rank):
        if P.basis[i] == "Array":
            out.append({"dir": "Array", "basis": "Array", "len": int(P.coefficients.shape[i])})
        else:
            out.append({"dir": P.direction[i], "ep": bool(P.endpoints[i]), "basis": P.basis[i]})
    return out


def make(WG, grid, terms, axes, basis_override=None):
    C = sum(outer([f.coefvec() for f in term]) for term in terms)
    basis = tuple(a["basis"] for a in axes)
    direction = tuple(a["dir"] for a in axes)
    endpoints = tuple(bool(a.get("ep", False)) for a in axes)
    return WG.Polynomial(np.array(C, dtype=float), grid, basis, direction, endpoints), C


def run_case(args):
    case, seed = args
    import WallGo as WG

    M, N, axes, op = case["M"], case["N"], case["axes"], case["op"]
    S = [i - 1 for i in case["S"]]
    key = json.dumps(case, sort_keys=True)
    rng = np.random.default_rng(zlib.crc32(key.encode()) + seed)
    ev = {"e": "Case", "M": M, "N": N, "axes": axes, "op": op, "S": case["S"], "P": 5,
          "d": -1, "dLin": -1, "dNodes": -1, "dCommute": 16, "dHist": 16, "dOutside": 0, "kOut": 0, "degP": [], "degQ": [],
          "outAxes": [], "outShape": [], "inShape": []}
    try:
        grid = WG.Grid(M, N, 1.0, 1.0)
        T1 = [[Factor(rng, M, N, a) for a in axes] for _ in range(2)]
        T2 = [[Factor(rng, M, N, a) for a in axes] for _ in range(2)]
        P1, C1 = make(WG, grid, T1, axes)
        P2, C2 = make(WG, grid, T2, axes)
        ev["inShape"] = list(P1.coefficients.shape)
        # errors are measured relative to the size of the data the operation acted on (an exact
        # result may be zero, e.g. the derivative of a constant factor)
        FL = float(max(np.max(np.abs(C1)), np.max(np.abs(C2)), 1e-3))

        def lin(C):  # fresh polynomial of the linear combination
            return WG.Polynomial(np.array(C, float), grid, tuple(a["basis"] for a in axes),
                                 tuple(a["dir"] for a in axes), tuple(bool(a.get("ep", False)) for a in axes))

        if op == "roundtrip":
            other = tuple(("Chebyshev" if a["basis"] == "Cardinal" else "Cardinal") if a["basis"] != "Array" else "Array" for a in axes)
            orig = tuple(a["basis"] for a in axes)
            P1.changeBasis(other)
            mid_exact = sum(outer([f.coefvec(other[i] if f.poly else None) for i, f in enumerate(term)]) for term in T1)
            dmid = quant.reldigits(P1.coefficients, mid_exact)
            P1.changeBasis(orig)
            ev["d"] = min(dmid, quant.reldigits(P1.coefficients, C1))
            P3 = lin(2 * C1 - 3 * C2)
            P3.changeBasis(other)
            P2.changeBasis(other)
            P1b = lin(C1)
            P1b.changeBasis(other)
            ev["dLin"] = quant.reldigits(P3.coefficients, 2 * P1b.coefficients - 3 * P2.coefficients)
            ev["outAxes"] = descr_of(P1)
            ev["outShape"] = list(P1.coefficients.shape)
        elif op == "evaluate":
            npts = ev["P"]
            coords = rng.uniform(-0.98, 0.98, (len(S), npts))

            def exact(terms, coords):
                tot = 0
                for term in terms:
                    pv = np.ones(coords.shape[1])
                    for j, i in enumerate(S):
                        pv = pv * term[i].at(coords[j])
                    rest = outer([term[i].coefvec() for i in range(len(axes)) if i not in S])
                    tot = tot + np.multiply.outer(pv, rest)
                return tot

            r1 = np.asarray(P1.evaluate(coords, axes=tuple(S)))
            ev["d"] = quant.reldigits(r1, exact(T1, coords), floor=FL)
            r2 = np.asarray(P2.evaluate(coords, axes=tuple(S)))
            r3 = np.asarray(lin(2 * C1 - 3 * C2).evaluate(coords, axes=tuple(S)))
            ev["dLin"] = quant.reldigits(r3, 2 * r1 - 3 * r2, floor=FL)
            # grid values at grid points
            gc = np.stack([T1[0][i].x[T1[0][i].kept][rng.integers(0, len(T1[0][i].kept), npts)] for i in S])
            rn = np.asarray(P1.evaluate(gc, axes=tuple(S)))
            ev["dNodes"] = quant.reldigits(rn, exact(T1, gc), floor=FL)
            ev["outAxes"] = [a for i, a in enumerate(axes) if i not in S]
            ev["outShape"] = list(r1.shape)
            # single-point form must return the same number when everything is evaluated
            if len(S) == len(axes):
                v = P1.evaluate(coords[:, 0], axes=tuple(S))
                ev["dNodes"] = min(ev["dNodes"], quant.reldigits(v, r1[0], floor=FL))
        elif op == "derivative":
            def exact(terms):
                return sum(outer([(f.deriv_nodes() if i in S else f.coefvec()) for i, f in enumerate(term)]) for term in terms)

            D1 = P1.derivative(tuple(S) if len(S) > 1 else S[0])
            ev["d"] = quant.reldigits(D1.coefficients, exact(T1), floor=FL)
            D2 = P2.derivative(tuple(S))
            D3 = lin(2 * C1 - 3 * C2).derivative(tuple(S))
            ev["dLin"] = quant.reldigits(D3.coefficients, 2 * D1.coefficients - 3 * D2.coefficients, floor=FL)
            Q = lin(C1)
            for i in S:
                Q = Q.derivative(i)
            ev["dCommute"] = quant.reldigits(Q.coefficients, D1.coefficients, floor=FL)
            ev["outAxes"] = descr_of(D1)
            ev["outShape"] = list(D1.coefficients.shape)
            # history on ONE object: differentiate, change its basis in place, differentiate again (and back, and again)
            # (only the differentiated axes change basis: the others keep theirs in the result, which exact() assumes)
            flip = tuple(("Chebyshev" if a["basis"] == "Cardinal" else "Cardinal") if (a["basis"] != "Array" and i in S) else a["basis"] for i, a in enumerate(axes))
            P1.changeBasis(flip)
            Dh = P1.derivative(tuple(S) if len(S) > 1 else S[0])
            ev["dHist"] = quant.reldigits(Dh.coefficients, exact(T1), floor=FL)
            P1.changeBasis(tuple(a["basis"] for a in axes))
            Dh2 = P1.derivative(tuple(S) if len(S) > 1 else S[0])
            ev["dHist"] = min(ev["dHist"], quant.reldigits(Dh2.coefficients, exact(T1), floor=FL))
        elif op == "integrate":
            qs, degQ, degP = {}, [], []
            for i in S:
                f = T1[0][i]
                dmax = max(T1[0][i].degP, T1[1][i].degP, T2[0][i].degP, T2[1][i].degP)
                room = 2 * f.K - 3 - dmax
                dq = int(max(0, min(3, room)))
                c = rng.uniform(-1, 1, dq + 1)
                c[-1] += 0.5 if c[-1] >= 0 else -0.5
                qs[i] = NP(c)
                degQ.append(dq)
                degP.append(int(dmax))
            ev["degP"], ev["degQ"] = degP, degQ

            def weight(qs):
                w = np.array(1.0)
                shape = [1] * len(axes)
                tot = np.ones(shape)
                for i in S:
                    f = T1[0][i]
                    xk = f.x[f.kept]
                    sh = list(shape)
                    sh[i] = len(xk)
                    tot = tot * (qs[i](xk) * np.sqrt(1 - xk**2)).reshape(sh)
                return tot

            def exact(terms, qs):
                tot = 0
                for term in terms:
                    sc = 1.0
                    for i in S:
                        sc *= mono_weighted_integral(term[i].f * qs[i])
                    rest = [term[i].coefvec() for i in range(len(axes)) if i not in S]
                    tot = tot + sc * (outer(rest) if rest else 1.0)
                return tot

            def integ(C, qs):
                r = lin(C).integrate(tuple(S) if len(S) > 1 else S[0], weight(qs))
                return r

            R1 = integ(C1, qs)
            c1 = R1.coefficients if hasattr(R1, "coefficients") else np.asarray(R1)
            ev["d"] = quant.reldigits(c1, exact(T1, qs), floor=FL)
            R2 = integ(C2, qs)
            c2 = R2.coefficients if hasattr(R2, "coefficients") else np.asarray(R2)
            R3 = integ(2 * C1 - 3 * C2, qs)
            c3 = R3.coefficients if hasattr(R3, "coefficients") else np.asarray(R3)
            ev["dLin"] = quant.reldigits(c3, 2 * c1 - 3 * c2, floor=FL)
            ev["outAxes"] = descr_of(R1) if hasattr(R1, "coefficients") else []
            ev["outShape"] = list(np.shape(c1))
            # one degree outside the exactness class on the first integrated axis
            i0 = S[0]
            f0 = T1[0][i0]
            dq_out = 2 * f0.K - 2 - f0.degP
            ev["kOut"] = int(f0.K)
            if dq_out >= 0:
                qo = dict(qs)
                c = np.zeros(dq_out + 1)
                c[-1] = 1.0
                qo[i0] = NP(c)
                single = [[T1[0][i] for i in range(len(axes))]]
                Cs = outer([f.coefvec() for f in single[0]])
                Ro = integ(Cs, qo)
                co = Ro.coefficients if hasattr(Ro, "coefficients") else np.asarray(Ro)
                ev["dOutside"] = quant.reldigits(co, exact(single, qo), floor=1e-30)
            else:
                ev["kOut"] = 0
        ev["out"] = "ok"
    except Exception as ex:  # judged by TLC (out must be "ok")
        ev["out"] = type(ex).__name__
        ev["msg"] = str(ex)[:200]
    return {"id": "case_" + hex(zlib.crc32(key.encode()))[2:] + f"_{op}_M{M}N{N}", "ev": [ev],
            "cell": {"op": op, "M": M, "N": N, "rank": len(axes)}, "case": case}


def big_cases(rng):
    """hand-placed large grids (outside TLC's exhaustive bounds, same trace spec)"""
    out = []
    for (M, N) in [(20, 11), (40, 11), (80, 15)]:
        for op in ("roundtrip", "evaluate", "derivative", "integrate"):
            for d in ("z", "pz", "pp"):
                for ep in (False, True):
                    for b in ("Cardinal", "Chebyshev"):
                        out.append({"M": M, "N": N, "axes": [{"dir": d, "ep": ep, "basis": b}], "S": [1], "op": op, "active": True})
            ax = [{"dir": "z", "ep": False, "basis": "Cardinal"}, {"dir": "pz", "ep": False, "basis": "Chebyshev"},
                  {"dir": "pp", "ep": False, "basis": "Cardinal"}]
            out.append({"M": M, "N": N, "axes": ax, "S": [1, 2, 3] if op != "derivative" else [2, 3], "op": op, "active": True})
    return out


def run(chk, tier, seed):
    cfg = "PolyIndexGen.cfg"
    res = tlc.run_model("PolyIndex.tla", cfg, coverage=False)
    chk.add_model(res, label="exhaustive M,N<=5, rank<=2: every (sizes, descriptors, op, axes) case")
    cases = tlc.json_lines(res["out"])
    rng = random.Random(seed)
    extra = []
    if tier == "thorough":
        r2 = tlc.run_model("PolyIndex.tla", "PolyIndexBig.cfg", simulate=4000, depth=2, seed=seed, workers=1)
        extra = tlc.json_lines(r2["out"])
        chk.extra["simulated_rank4_cases"] = len(extra)
        chk.states += 0
    else:
        rng.shuffle(cases)
        cases = cases[: len(cases) // 3]
    allcases = cases + extra + big_cases(rng)
    with Pool(16) as pool:
        traces = pool.map(run_case, [(c, seed) for c in allcases], chunksize=64)
    for tr in traces:
        chk.count(tr["id"])
    chk.sample(traces[0])
    chk.sample(traces[len(traces) // 2])
    vr = tlc.validate("TracePolyIndex.tla", "TracePolyIndex.cfg", traces, timeout=3600)
    chk.add_validation(vr, traces)
    ops = {}
    for tr in traces:
        ops[tr["cell"]["op"]] = ops.get(tr["cell"]["op"], 0) + 1
    chk.extra.update(cases_from_tlc=len(cases), cases_big_grids=len(allcases) - len(cases) - len(extra), ops=ops,
                     exhaustive=(tier == "thorough"),
                     checker_cmd="tlc PolyIndex.tla (PolyIndexGen.cfg) ; tlc TracePolyIndex.tla")
    chk.rule = ("cases = states of PolyIndex.tla (M,N in 2..5, rank<=2, 15 axis descriptors per axis, 4 operations, axis subsets); quick runs a "
                "seeded third of them, thorough all plus simulated rank<=4 cases for M,N<=9 and grids (20,11),(40,11),(80,15); each case: "
                "random separable-sum polynomial of random admissible degree per axis; distinct = distinct case")
    chk.assumptions += ["oracle: monomial-form numpy polynomials, cosine-formula Chebyshev matrices, closed-form int x^m sqrt(1-x^2)"]


def replay(chk, path):
    with open(path) as f:
        tr = json.load(f)
    new = run_case((tr["case"], chk.seed))
    print(json.dumps(new["ev"][0], indent=1)[:3000])
    vr = tlc.validate("TracePolyIndex.tla", "TracePolyIndex.cfg", [new])
    chk.add_validation(vr, [new])
    return chk.finish()
