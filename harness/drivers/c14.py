"""C14 -- collision data act identically after loading, basis change and interpolation.

Design model CollisionLoad.tla: (1) loader protocol with every fault pattern as initial state
(checked with StrictErrors/MoveAxis = TRUE, i.e. the property; the as-found variants are kept as
documented counterexamples), (2) index provenance of the interpolation reshape.  Every TLC
initial state (fault pattern x target size x previous array) is replayed into the real
BoltzmannSolver.loadCollisions on synthetic HDF5 directories; TLC judges the recorded outcome.
"""
import json
import os
import shutil
import tempfile
import zlib
from multiprocessing import Pool
from pathlib import Path

import numpy as np

from .. import quant, tlc
from .c16 import cheb_matrix, nodes

LEVEL = "model_checking"
NS, NS2, M = 7, 5, 4
NAMES = ["top", "gluon", "W"]
_opens = []


def particles(WG, n):
    return [WG.Particle(NAMES[i], i, lambda f: 0.0, lambda f: 0.0, "Fermion" if i % 2 == 0 else "Boson", 12) for i in range(n)]


def pz_nodes(N):
    return nodes(N)[1:N]           # kept nodes, endpoints dropped


def pp_nodes(N):
    return nodes(N - 1)[0:N - 1]   # the +1 end dropped


def T_pz(N, x=None):
    x = pz_nodes(N) if x is None else x
    return cheb_matrix(x, np.arange(2, N + 1), "pz", False)


def T_pp(N, x=None):
    x = pp_nodes(N) if x is None else x
    return cheb_matrix(x, np.arange(1, N), "pp", False)


def write_dir(root, names, data, size, basis, status):
    """data[(a,b)] arrays of shape (size-1,)*4 ; status per ordered pair (row-major list)"""
    import h5py

    os.makedirs(root, exist_ok=True)
    k = 0
    for a in names:
        for b in names:
            st = status[k]
            k += 1
            if st == "missing":
                continue
            sz = NS2 if st == "otherSize" else size
            bt = ("Cardinal" if basis == "Chebyshev" else "Chebyshev") if st == "otherBasis" else basis
            arr = data[(a, b)]
            if sz != size:
                arr = np.ascontiguousarray(arr[: sz - 1, : sz - 1, : sz - 1, : sz - 1])
            with h5py.File(os.path.join(root, f"collisions_{a}_{b}.hdf5"), "w") as f:
                md = f.create_group("metadata")
                md.attrs["Basis Size"] = sz
                md.attrs["Basis Type"] = bt
                f.create_dataset(f"{a}, {b}", data=arr)


def rand_data(rng, names, size):
    return {(a, b): rng.normal(size=(size - 1,) * 4) + (3.0 if a == b else 0.0) * np.eye((size - 1) ** 2).reshape((size - 1,) * 4)
            for a in names for b in names}


def apply_op(C, f):
    """(C f)[a, al, be] = sum_{b j k} C[a, al, be, b, j, k] f[b, j, k]"""
    return np.einsum("axybjk,bjk->axy", C, f)


def coeffs_in(basis, fcheb, N):
    """distribution given by restricted-Chebyshev coefficients fcheb[b, j, k] -> coefficients in `basis`"""
    if basis == "Chebyshev":
        return fcheb
    return np.einsum("xj,yk,bjk->bxy", T_pz(N), T_pp(N), fcheb)


def interp_values(g, Nsrc, Ntgt):
    """g[a, al, be] = values of a restricted polynomial at the source momentum nodes -> values at target nodes"""
    cz = np.linalg.solve(T_pz(Nsrc), np.eye(Nsrc - 1))
    cp = np.linalg.solve(T_pp(Nsrc), np.eye(Nsrc - 1))
    coef = np.einsum("jx,ky,axy->ajk", cz, cp, g)
    return np.einsum("xj,yk,ajk->axy", T_pz(Nsrc, pz_nodes(Ntgt)), T_pp(Nsrc, pp_nodes(Ntgt)), coef)


def count_opens():
    import h5py

    real = h5py.File

    class Counting(real):  # counts successful opens of collision files
        def __init__(self, name, mode="r", *a, **k):
            super().__init__(name, mode, *a, **k)
            if mode == "r":
                _opens.append(str(name))

    return real, Counting


def run_case(args):
    case, npart, seed = args
    import h5py
    import WallGo as WG
    import WallGo.collisionArray as CA

    key = json.dumps(case, sort_keys=True) + str(npart)
    rng = np.random.default_rng(zlib.crc32(key.encode()) + seed)
    status, nt, prev = case["files"], case["nt"], case["prev"]
    stored_basis = ["Chebyshev", "Cardinal"][zlib.crc32(key.encode()) % 2]
    req_basis = ["Chebyshev", "Cardinal"][(zlib.crc32(key.encode()) // 2) % 2]
    names = NAMES[:npart]
    tmp = tempfile.mkdtemp(prefix="c14.", dir=tlc.scratch())
    ev = {"e": "Load", "files": status, "nt": nt, "hadPrev": prev != "none", "reqBasis": req_basis, "storedBasis": stored_basis,
          "exact": False, "sameBasisSameSize": False, "srcSize": 0, "dOp": -1, "dInterp": -1, "dPairLocal": -1, "basisOut": "", "sizeOut": -1, "srcUsed": False, "srcUntouched": True, "dSrcAction": 16}
    real, Counting = count_opens()
    try:
        parts = particles(WG, npart)
        grid = WG.Grid(M, nt, 1.0, 1.0)
        solver = WG.BoltzmannSolver(grid, "Cardinal", req_basis)
        solver.updateParticleList(parts)
        prev_obj = None
        if prev != "none":
            good = os.path.join(tmp, "good")
            write_dir(good, names, rand_data(rng, names, NS), NS, stored_basis, ["ok"] * (npart * npart))
            solver.loadCollisions(Path(good))
            prev_obj = solver.collisionArray
            prev_copy = np.array(prev_obj.polynomialData.coefficients, copy=True)
        data = rand_data(rng, names, NS)
        d = os.path.join(tmp, "case")
        write_dir(d, names, data, NS, stored_basis, status)
        _opens.clear()
        CA.h5py.File = Counting
        try:
            solver.loadCollisions(Path(d))
            ev["out"] = "ok"
        except Exception as ex:  # outcome class judged by TLC
            ev["out"] = type(ex).__name__
            ev["msg"] = str(ex)[:150]
        finally:
            CA.h5py.File = real
        ev["opens"] = len(_opens)
        cur = solver.collisionArray
        if ev["out"] == "ok":
            ev["installed"] = "new" if (cur is not None and cur is not prev_obj) else "prev"
        else:
            intact = (cur is prev_obj) and (prev_obj is None or np.array_equal(prev_copy, prev_obj.polynomialData.coefficients))
            ev["installed"] = "prev" if intact else "changed"
        if ev["out"] == "ok":
            # a successful load means every file shares the first file's size and basis
            NSRC = NS2 if status[0] == "otherSize" else NS
            if status[0] == "otherBasis":
                stored_basis = "Cardinal" if stored_basis == "Chebyshev" else "Chebyshev"
            ev["srcSize"] = NSRC
            C = np.asarray(cur.polynomialData.coefficients)
            ev["basisOut"] = cur.getBasisType()
            ev["sizeOut"] = int(cur.getBasisSize())
            src = np.zeros((npart, NSRC - 1, NSRC - 1, npart, NSRC - 1, NSRC - 1))
            for i, a in enumerate(names):
                for j, b in enumerate(names):
                    src[i, :, :, j, :, :] = data[(a, b)][: NSRC - 1, : NSRC - 1, : NSRC - 1, : NSRC - 1]
            ev["sameBasisSameSize"] = bool(nt == NSRC and req_basis == stored_basis)
            if ev["sameBasisSameSize"]:
                ev["exact"] = bool(C.shape == src.shape and np.array_equal(C, src))
            # random distributions: Chebyshev coefficients, low orders only when interpolating
            worst_op, worst_int = 16, 16
            for _ in range(3):
                fch = np.zeros((npart, NSRC - 1, NSRC - 1))
                fch[:, : nt - 1, : nt - 1] = rng.normal(size=(npart, nt - 1, nt - 1))
                g_src = apply_op(src, coeffs_in(stored_basis, fch, NSRC))        # values at source nodes
                if nt == NSRC:
                    g_new = apply_op(C, coeffs_in(req_basis, fch, NSRC))
                    worst_op = min(worst_op, quant.reldigits(g_new, g_src))
                else:
                    f_t = coeffs_in(req_basis, fch[:, : nt - 1, : nt - 1], nt)
                    g_new = apply_op(C, f_t)                                   # values at target nodes
                    worst_int = min(worst_int, quant.reldigits(g_new, interp_values(g_src, NSRC, nt)))
                    # basis invariance on the target grid: same load in the other basis
            if nt < NSRC:
                other = "Cardinal" if req_basis == "Chebyshev" else "Chebyshev"
                s2 = WG.BoltzmannSolver(grid, "Cardinal", other)
                s2.updateParticleList(parts)
                s2.loadCollisions(Path(d))
                C2 = np.asarray(s2.collisionArray.polynomialData.coefficients)
                fch = rng.normal(size=(npart, nt - 1, nt - 1))
                worst_op = min(worst_op, quant.reldigits(apply_op(C, coeffs_in(req_basis, fch, nt)), apply_op(C2, coeffs_in(other, fch, nt))))
            ev["dOp"], ev["dInterp"] = worst_op, worst_int
            # pair locality: blocks of the npart-particle array vs loads with fewer particles present
            worst_pl = 16
            if npart > 1:
                subsets = [[i] for i in range(npart)] + ([[i, j] for i in range(npart) for j in range(i + 1, npart)] if npart > 2 else [])
                for sub in subsets:
                    sp = [parts[i] for i in sub]
                    s3 = WG.BoltzmannSolver(grid, "Cardinal", req_basis)
                    s3.updateParticleList(sp)
                    s3.loadCollisions(Path(d))
                    C3 = np.asarray(s3.collisionArray.polynomialData.coefficients)
                    for x, i in enumerate(sub):
                        for y, j in enumerate(sub):
                            worst_pl = min(worst_pl, quant.reldigits(C[i, :, :, j, :, :], C3[x, :, :, y, :, :]))
            ev["dPairLocal"] = worst_pl
            # call history: the installed array used as the SOURCE of a further interpolation must come out of it unchanged
            # (numbers, basis flag, and therefore its action); the result must be a different object
            if nt >= 5:
                before = np.array(cur.polynomialData.coefficients, copy=True)
                basis_before = cur.getBasisType()
                small = CA.CollisionArray.interpolateCollisionArray(cur, WG.Grid(M, nt - 2, 1.0, 1.0))
                ev["srcUsed"] = True
                ev["srcUntouched"] = bool(small is not cur and cur.getBasisType() == basis_before and np.array_equal(before, np.asarray(cur.polynomialData.coefficients))
                                          and small.polynomialData is not cur.polynomialData)
                fch = rng.normal(size=(npart, nt - 1, nt - 1))
                ev["dSrcAction"] = quant.reldigits(apply_op(np.asarray(cur.polynomialData.coefficients), coeffs_in(basis_before, fch, nt)), apply_op(before, coeffs_in(basis_before, fch, nt)))
    except Exception as ex:  # harness-side failure is reported as an outcome TLC will reject
        ev.setdefault("out", "Harness:" + type(ex).__name__)
        ev.setdefault("opens", -1)
        ev.setdefault("installed", "?")
        ev["msg"] = str(ex)[:200]
    finally:
        shutil.rmtree(tmp, ignore_errors=True)
    tid = f"np{npart}_nt{nt}_{prev}_" + "".join({"ok": "k", "missing": "m", "otherSize": "S", "otherBasis": "B"}[s] for s in status)
    faults = sorted(set(status) - {"ok"})
    return {"id": tid, "ev": [ev], "case": case, "npart": npart,
            "cell": {"npart": npart, "nt": nt, "interp": nt < (NS2 if status[0] == "otherSize" else NS), "faults": faults, "out": ev.get("out")}}


def run(chk, tier, seed):
    for cfg, lab, exp in [("CollisionLoad.cfg", "property variant (StrictErrors, MoveAxis): all invariants", None),
                          ("CollisionLoadOneParticle.cfg", "as-found reshape is harmless for one particle", None),
                          ("CollisionLoadAsFoundErr.cfg", "documented counterexample: assert instead of CollisionLoadError", "ErrorKind"),
                          ("CollisionLoadAsFoundReshape.cfg", "documented counterexample: reshape without moving the point axis", "PairLocalInv")]:
        res = tlc.run_model("CollisionLoad.tla", cfg)
        chk.add_model(res, expect_violation=exp, label=lab)
    jobs = []
    import random

    rng = random.Random(seed)
    for n in (1, 2, 3):
        res = tlc.run_model("CollisionLoad.tla", f"CollisionLoadGen{n}.cfg")
        chk.add_model(res, label=f"fault-pattern generator NP={n}")
        cases = tlc.json_lines(res["out"])
        if tier == "quick" and n >= 2:
            rng.shuffle(cases)
            allok = [c for c in cases if all(s == "ok" for s in c["files"])]
            cases = allok + cases[: 250 if n == 2 else 120]
        jobs += [(c, n, seed) for c in cases]
    with Pool(16) as pool:
        traces = pool.map(run_case, jobs, chunksize=8)
    by_n = {1: [], 2: [], 3: []}
    for tr in traces:
        by_n[tr["npart"]].append(tr)
        chk.count(tr["id"])
    for n in (1, 2, 3):
        if by_n[n]:
            vr = tlc.validate("TraceCollisionLoad.tla", f"TraceCollisionLoad{n}.cfg", by_n[n])
            chk.add_validation(vr, by_n[n])
    chk.sample(by_n[2][0])
    okl = [t for t in traces if t["ev"][0].get("out") == "ok"]
    if okl:
        chk.sample(okl[-1])
    outs = {}
    for tr in traces:
        o = tr["ev"][0].get("out")
        outs[o] = outs.get(o, 0) + 1
    chk.extra.update(outcomes=outs, exhaustive=(tier == "thorough"),
                     checker_cmd="tlc CollisionLoad.tla (4 variants + 3 generators) ; tlc TraceCollisionLoad.tla per NP")
    chk.rule = ("cases = initial states of CollisionLoad.tla: fault pattern over ordered pairs (ok/missing/otherSize/otherBasis) x target "
                "size {3,5,7} (stored 7) x previous array yes/no; NP=1,2 exhaustive (thorough; quick: all NP=1, 250 NP=2, 120 NP=3 by seed), NP=3 with "
                "at most two faulty files; stored and requested basis alternate by case; distinct = distinct case id")
    chk.assumptions += ["oracle: own restricted-Chebyshev matrices for basis conversion and interpolation of the operator's output",
                        "synthetic HDF5 files (metadata/Basis Size, Basis Type, dataset 'a, b')"]


def replay(chk, path):
    with open(path) as f:
        tr = json.load(f)
    new = run_case((tr["case"], tr["npart"], chk.seed))
    print(json.dumps(new["ev"][0], indent=1))
    vr = tlc.validate("TraceCollisionLoad.tla", f"TraceCollisionLoad{tr['npart']}.cfg", [new])
    chk.add_validation(vr, [new])
    return chk.finish()
