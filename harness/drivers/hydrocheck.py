"""Common check logic of the five hydrodynamics properties."""
import json
from multiprocessing import Pool

from .. import tlc
from . import hydro

LEVELS = {"C02": "exploration", "C03": "exploration", "C05": "model_checking", "C06": "model_checking", "C15": "exploration"}

DESIGN = {
    "C02": [("HydroMatch.cfg", None, "findMatching branch automaton: template fallback iff no exact matching was bracketed")],
    "C03": [("HydroMatch.cfg", None, "branch automaton / families (shared design model)")],
    "C05": [("HydroMatch.cfg", None, "LTE decision tree: sentinels sound on the sign paths for monotone mismatch profiles"),
            ("HydroMatchLteDev.cfg", "SentinelsSoundEverywhere", "documented counterexample: runaway sentinel returned on the no-shock-bracket / unconverged paths")],
    "C06": [("HydroMatch.cfg", None, "families partition the velocity lattice; window logic sound when the bracket sees the crossing"),
            ("HydroMatchWinDev.cfg", "WindowSoundEverywhere", "documented counterexample: a range exceeded already at the bottom of the bracket is not seen")],
    "C15": [("HydroMatch.cfg", None, "families / sentinels shared by both implementations")],
}


def cells_for(prop, tier, seed):
    nv = {"quick": 12, "thorough": 24}[tier]
    if prop == "C15":
        cs = hydro.eos_cells(tier, seed, template_only=True, nv=nv)
        cs += [c for c in hydro.eos_cells(tier, seed, nv=nv) if c["eos"] == "bag"]
        # corner of the template parameter space: transition strength just below the template solver's runaway bound
        # (its LTE velocity must still be the root the general solver finds), unequal sound speeds, Tn away from 1
        for al, psi, cs2, cb2, Tn in ((0.33, 0.7, 0.30, 0.25, 10.0), (0.30, 0.7, 0.30, 0.25, 0.1)):
            cs.append(dict(eos="template", Tn=Tn, par=dict(alN=al, psiN=psi, cs2=cs2, cb2=cb2, scale=3.7), tag=f"corner_al{al}_psi{psi}_cs{cs2:.3f}_cb{cb2:.3f}_Tn{Tn}", nv=nv))
        for c in cs:
            c.update(template=True, oracle=True)
        return cs
    cs = hydro.eos_cells(tier, seed, nv=nv)
    for c in cs:
        c["oracle"] = prop == "C03"
        c["lte"] = prop in ("C05",)
        if prop != "C15":
            c["template"] = False
    if prop == "C05":
        for c in cs:
            c["nv"] = max(c["nv"], 17)
    if prop == "C06":
        # phase temperature ranges that cut the deflagration/hybrid window short
        extra = []
        for c in cs[:: 3 if tier == "quick" else 1]:
            if c["eos"] == "template":
                continue
            for cut in ((1.15, 1e3), (1e3, 1.1), (1.3, 1.25)):
                d = json.loads(json.dumps(c))
                d["par"].update(TMaxHigh=cut[0], TMaxLow=cut[1])
                d["window"] = True
                d["tag"] += f"_cut{cut[0]}-{cut[1]}"
                extra.append(d)
        cs += extra
    return cs


def finding_cells(prop):
    """the exact inputs of the recorded known findings: always part of the run (both tiers)"""
    import os
    path = os.path.join(os.path.dirname(os.path.abspath(__file__)), "hydro_finding_cells.json")
    with open(path) as f:
        return json.load(f).get(prop, [])


def run(chk, tier, seed, prop):
    for cfg, exp, lab in DESIGN[prop]:
        chk.add_model(tlc.run_model("HydroMatch.tla", cfg), expect_violation=exp, label=lab)
    cs = cells_for(prop, tier, seed)
    have = {c["eos"] + "_" + c["tag"] for c in cs}
    for c in finding_cells(prop):
        if c["eos"] + "_" + c["tag"] not in have:
            cs.append(c)
    with Pool(16) as pool:
        traces = pool.map(hydro.run_trace, cs, chunksize=1)
    for tr in traces:
        for ev in tr["ev"]:
            if ev["e"] == "Match":
                chk.count((tr["id"], ev["vw"]))
    chk.sample({"id": traces[0]["id"], "cell": traces[0]["cell"], "events": traces[0]["ev"][:3]})
    vr = tlc.validate("TraceHydro.tla", f"TraceHydro_{prop}.cfg", traces)
    chk.add_validation(vr, traces)
    fam = {}
    for tr in traces:
        su = tr["ev"][0]
        for ev in tr["ev"]:
            if ev["e"] == "Match" and ev.get("out") == "ok" and "vJ" in su:
                f = "detonation" if ev["vw"] > su["vJ"] else ("hybrid" if ev["vw"] > ev["csm"] else "deflagration")
                fam[f] = fam.get(f, 0) + 1
    chk.extra.update(eos_cells=len(cs), matchings_by_family=fam, checker_cmd=f"tlc HydroMatch.tla ; tlc TraceHydro.tla (PROP={prop})")
    chk.rule = ("cells = equation of state (constant-sound-speed template: alpha_n=(1-psi)/3+{1e-3..1}, psi 0.5..1, cs2,cb2 in 0.2..1/3; bag; "
                "polynomial two-step) x nucleation temperature over five decades; per cell wall velocities clustered at vMin, c_s-, vJ and up "
                "to 0.99 on all three branches; distinct = distinct (cell, wall velocity)")
    chk.assumptions += ["equations of state with closed-form p, dp, ddp (Thermodynamics subclasses as in the repository's tests)",
                        "C03 oracle: own integrator of the self-similar flow in the similarity variable (DOP853, rtol 1e-11), harness/eos.py"]


def replay(chk, path, prop):
    with open(path) as f:
        tr = json.load(f)
    new = hydro.run_trace(tr["cell"])
    for ev in new["ev"]:
        print(json.dumps(ev)[:700])
    vr = tlc.validate("TraceHydro.tla", f"TraceHydro_{prop}.cfg", [new])
    chk.add_validation(vr, [new])
    return chk.finish()
