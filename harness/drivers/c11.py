"""C11 -- a traced phase is one genuine minimum, tabulated only where it exists.

PhaseTrace.tla models the tracer's loop iteration order; TLC checks it with the property
assumption (HopPossible = FALSE) and keeps the counterexample for HopPossible = TRUE.
Conformance: the real FreeEnergy.tracePhase on potentials with closed-form minima and
spinodals over a lattice of (model, branch, start, request, step, tolerance, paranoid, units);
TLC judges each recorded table against the closed-form truth (TracePhaseTrace.tla).
"""
import itertools
import json
import math
import random
import warnings
import zlib
from multiprocessing import Pool

import numpy as np

from .. import models, quant, tlc
from .. import limits

LEVEL = "model_checking"
TICK = 1e5
CAP = 3000000


def tk(T, Tref):
    if not math.isfinite(T):
        return CAP
    return int(min(CAP, round(T / Tref * TICK)))


def grad_num(model, f, T):
    f = np.asarray(f, float)
    g = np.zeros_like(f)
    for i in range(len(f)):
        h = 1e-4 * model.field_scale()
        e = np.zeros_like(f)
        e[i] = h

        def V(x):
            return float(model.V(x[0] if model.nf == 1 else x, T))

        g[i] = (-V(f + 2 * e) + 8 * V(f + e) - 8 * V(f - e) + V(f - 2 * e)) / (12 * h)
    return g


def hess_num(model, f, T):
    f = np.asarray(f, float)
    n = len(f)
    H = np.zeros((n, n))
    h = 1e-3 * model.field_scale()

    def V(x):
        return float(model.V(x[0] if model.nf == 1 else x, T))

    for i in range(n):
        for j in range(n):
            ei = np.zeros(n)
            ej = np.zeros(n)
            ei[i] = h
            ej[j] = h
            H[i, j] = (V(f + ei + ej) - V(f + ei - ej) - V(f - ei + ej) + V(f - ei - ej)) / (4 * h * h)
    return H


def build_model(cell):
    if cell["model"] == "one":
        return models.OneField(u=cell["u"])
    return models.TwoField(u=cell["u"])


@limits.limited(400)          # a normal cell takes seconds; the event then carries out=CellTimeout, which TLC rejects
def run_cell(cell):
    import WallGo
    from WallGo import Fields

    warnings.filterwarnings("ignore")
    m = build_model(cell)
    br = cell["branch"]
    Tref = m.T0 if cell["model"] == "one" else math.sqrt(m.muh2 / m.ch)
    sLo, sHi = m.spinodals(br)
    Ts = cell["start"] * Tref
    TMin, TMax = cell["req"][0] * Tref, cell["req"][1] * Tref
    dT = cell["dT"] * Tref
    rTol = 10.0 ** (-cell["rTol"])
    ev = {"e": "Trace", "t0": tk(Ts, Tref), "rLo": tk(TMin, Tref), "rHi": tk(TMax, Tref), "sLo": tk(sLo, Tref), "sHi": tk(sHi, Tref),
          "dT": max(1, tk(dT, Tref)), "rTol": cell["rTol"], "paranoid": cell["paranoid"],
          "n": 0, "monotone": False, "nOther": -1, "nOutside": -1, "hessPos": False, "dGrad": -1, "dV": -1, "dPhi": -1,
          "nRawOutside": -1, "tabLo": 0, "tabHi": 0, "flagLo": False, "flagHi": False, "rangeLo": 0, "rangeHi": 0, "dInterpV": -1, "dInterpPhi": -1}
    try:
        pot = models.make_potential(m)
        pot.configureDerivatives(WallGo.VeffDerivativeSettings(temperatureVariationScale=0.05 * Tref, fieldValueVariationScale=[0.3 * m.field_scale()] * m.nf))
        guess = m.minimum(br, np.array(Ts)) * (1.0 + 0.01) + 0.01 * m.field_scale()
        fe = WallGo.FreeEnergy(pot, Ts, Fields(tuple(np.ravel(guess))))
        fe.tracePhase(TMin, TMax, dT, rTol=rTol, paranoid=cell["paranoid"])
        ev["out"] = "ok"
        T = np.asarray(fe._interpolationPoints, float)
        vals = np.asarray(fe._interpolationValues, float)
        F, V = vals[:, :-1], vals[:, -1]
        ev["n"] = int(T.size)
        ev["monotone"] = bool(np.all(np.diff(T) > 0))
        ev["tabLo"], ev["tabHi"] = tk(T.min(), Tref), tk(T.max(), Tref)
        ev["flagLo"], ev["flagHi"] = bool(fe.minPossibleTemperature[1]), bool(fe.maxPossibleTemperature[1])
        ev["rangeLo"], ev["rangeHi"] = tk(fe.minPossibleTemperature[0], Tref), tk(fe.maxPossibleTemperature[0], Tref)
        fs = m.field_scale()
        vscale = 0.1 * fs**4
        nOther = nOut = 0
        worstG, worstV, hp, worstP = 16, 16, True, 16
        first_bad = None
        # judged on the REPORTED range (table ends -/+ the documented 2 dT margin): that is what
        # Thermodynamics serves; raw entries inside the margin are not used
        lo_r, hi_r = fe.minPossibleTemperature[0], fe.maxPossibleTemperature[0]
        inside = np.where((T >= lo_r) & (T <= hi_r))[0]
        if inside.size == 0:
            inside = np.arange(T.size)
        idx = np.unique(np.concatenate([inside[:: max(1, inside.size // 150)], inside[:2], inside[-2:]]))
        for i in idx:
            on = m.minimum(br, np.array(T[i]))
            d_on = np.linalg.norm(np.abs(m.to_canonical(F[i])) - np.abs(m.to_canonical(on)))
            ex = m.exists(br, T[i])
            if not ex:
                nOut += 1
            if d_on > 0.02 * fs:
                nb, _ = models.nearest_branch(m, F[i], T[i])
                if nb != br or not ex:
                    nOther += 1
                    first_bad = first_bad or float(T[i] / Tref)
            g = grad_num(m, F[i], T[i])
            worstG = min(worstG, quant.digits(np.linalg.norm(g) / (vscale / fs)))
            H = hess_num(m, F[i], T[i])
            # the Hessian may be (numerically) singular exactly at a second-order end point
            if np.min(np.linalg.eigvalsh(H)) < -1e-6 * vscale / fs**2:
                hp = False
            Vex = float(m.V(F[i][0] if m.nf == 1 else F[i], T[i]))
            worstV = min(worstV, quant.digits(abs(V[i] - Vex) / max(abs(Vex), 1e-300)))
            if ex:
                worstP = min(worstP, quant.digits(d_on / fs))
        # raw table entries in the 2 dT margins (not served by Thermodynamics, but "every tabulated point" of the statement):
        # they must still be points where the branch exists -- a table that stores the first step PAST a spinodal has not
        # stopped before it.
        margin = [i for i in range(T.size) if i not in set(inside.tolist())]
        slack = max(2e-5, 10 * rTol)               # the last accepted step may sit on the spinodal to within the tracing tolerance
        nRawOut = sum(1 for i in margin if not (m.exists(br, T[i]) or m.exists(br, T[i] * (1 - slack)) or m.exists(br, T[i] * (1 + slack))))
        ev["nRawOutside"] = int(nRawOut)
        ev.update(nOther=nOther, nOutside=nOut, dGrad=worstG, dV=worstV, hessPos=hp, dPhi=worstP)
        if first_bad:
            ev["firstOtherAt"] = first_bad
        # interpolation accuracy at mid points of the reported range, where the branch exists
        lo, hi = fe.minPossibleTemperature[0], fe.maxPossibleTemperature[0]
        if hi > lo:
            mid = np.linspace(lo, hi, 41)[1:-1]
            mid = np.array([x for x in mid if m.exists(br, x)])
            if mid.size and nOther == 0:
                r = fe(mid)
                Vi = np.asarray(r.veffValue, float).ravel()
                Fi = np.asarray(r.fieldsAtMinimum, float).reshape(mid.size, m.nf)
                Vx = np.asarray(m.Vmin(br, mid), float).ravel()
                Fx = np.asarray(m.minimum(br, mid), float).reshape(mid.size, m.nf)
                ev["dInterpV"] = quant.digits(np.max(np.abs(Vi - Vx) / np.abs(Vx)))
                dphi = np.abs(np.abs(m.to_canonical(Fi)) - np.abs(m.to_canonical(Fx)))
                ev["dInterpPhi"] = quant.digits(np.max(dphi) / fs)
            else:
                ev["dInterpV"], ev["dInterpPhi"] = (16, 16) if nOther == 0 else (-1, -1)
    except Exception as ex:  # judged by TLC: out must be "ok"
        ev["out"] = type(ex).__name__
        ev["msg"] = str(ex)[:200]
    cid = "{model}_{branch}_u{u}_s{start}_r{req[0]}-{req[1]}_dT{dT}_tol{rTol}_{p}".format(p="par" if cell["paranoid"] else "nopar", **cell)
    # description of the observation, used ONLY to match entries of known_findings.json (the verdict is TLC's)
    if ev.get("out") != "ok":
        symptom = "exception:" + str(ev.get("out"))
    elif ev["nOther"] > 0:
        symptom = "hop"
    else:
        symptom = "other"
    crosses = bool(TMin < sLo or TMax > sHi)
    return {"id": cid, "ev": [ev], "cell": dict(cell, symptom=symptom, requestCrossesSpinodal=crosses)}


def run_tc(cell):
    import WallGo
    from WallGo import Fields

    warnings.filterwarnings("ignore")
    m = build_model(cell)
    ev = {"e": "Tc", "rTol": cell["rTol"], "dTc": -1, "lowFavouredBelow": False}
    try:
        if cell["model"] == "one":
            Tref, hi, lo, Tc, Tn = m.T0, "sym", "brk", m.Tc, 1.02 * m.T0
        else:
            Tref, hi, lo, Tc = math.sqrt(m.muh2 / m.ch), "S", "H", m.Tc("H", "S")
            Tn = 0.97 * Tc
        pot = models.make_potential(m)
        pot.configureDerivatives(WallGo.VeffDerivativeSettings(temperatureVariationScale=0.05 * Tref, fieldValueVariationScale=[0.3 * m.field_scale()] * m.nf))
        th = WallGo.Thermodynamics(pot, Tn, Fields(tuple(np.ravel(m.minimum(lo, np.array(Tn))))), Fields(tuple(np.ravel(m.minimum(hi, np.array(Tn))))))
        dT = cell["dT"] * Tref
        if cell.get("pretraced", True):
            for fe, br in ((th.freeEnergyHigh, hi), (th.freeEnergyLow, lo)):
                s = m.spinodals(br)
                fe.tracePhase(max(s[0], 0.5 * Tref) * 1.002 if s[0] > 0 else 0.7 * Tref, min(s[1], 1.6 * Tref) * 0.998, dT, rTol=10.0 ** (-cell["rTol"]), paranoid=cell["paranoid"])
        else:
            # the other call history: findCriticalTemperature traces the phases itself, over a stated range that extends
            # past the spinodals of both phases on either side (it must stop there and still find the crossing)
            sH, sL = m.spinodals(hi), m.spinodals(lo)
            lo_r = 0.96 * max(sH[0], sL[0], 0.5 * Tref)
            hi_r = 1.03 * min(sH[1], sL[1], 1.6 * Tref)
            for fe in (th.freeEnergyHigh, th.freeEnergyLow):
                fe.minPossibleTemperature[0] = lo_r
                fe.maxPossibleTemperature[0] = hi_r
        got = th.findCriticalTemperature(dT, rTol=10.0 ** (-cell["rTol"]), paranoid=cell["paranoid"])
        ev["out"] = "ok"
        ev["dTc"] = quant.digits(abs(got - Tc) / Tc)
        below = got - 3 * dT
        ev["lowFavouredBelow"] = bool(float(th.freeEnergyLow(below).veffValue) < float(th.freeEnergyHigh(below).veffValue))
    except Exception as ex:
        ev["out"] = type(ex).__name__
        ev["msg"] = str(ex)[:200]
    return {"id": "Tc_{model}_u{u}_dT{dT}_tol{rTol}_{p}{q}".format(p="par" if cell["paranoid"] else "nopar", q="" if cell.get("pretraced", True) else "_selftraced", **cell),
            "ev": [ev], "cell": dict(cell, kind="Tc")}


def cells(tier, seed):
    out = []
    one = [("sym", [1.02, 1.1, 1.3], {"in": (1.01, 1.5), "lo": (0.8, 1.5)}),
           ("brk", [0.9, 1.0, 1.03], {"in": (0.7, 1.04), "hi": (0.7, 1.2)})]
    # in units of Th = sqrt(muh2/ch): H exists on (0, 0.977), S on (0.883, 1.267), O above 1.267
    # Only genuine disappearances are requested: S -> O at 1.267 is a continuous (second-order)
    # merger, i.e. the same continuous branch in the property's sense, so no request crosses it.
    two = [("H", [0.6, 0.9], {"in": (0.5, 0.95), "hi": (0.5, 1.2)}),
           ("S", [0.95, 1.1], {"in": (0.9, 1.2), "lo": (0.6, 1.2)}),
           ("O", [1.4, 1.6], {"in": (1.3, 1.8)})]
    dts = [3.16e-4, 1e-3, 5e-3, 2e-2]
    tols = [4, 6, 8]
    for mdl, table in (("one", one), ("two", two)):
        for br, starts, reqs in table:
            for st in starts:
                for rname, rq in reqs.items():
                    if not (rq[0] < st < rq[1]):
                        continue
                    for dT in dts:
                        for tol in tols:
                            for par in (True, False):
                                for u in (1.0, 0.01, 100.0):
                                    out.append(dict(model=mdl, branch=br, start=st, req=list(rq), reqKind=rname, dT=dT, rTol=tol, paranoid=par, u=u))
    rng = random.Random(seed)
    rng.shuffle(out)
    if tier == "quick":
        # one representative of every (model, branch, request kind, paranoid) plus the small-step cells
        seen, pick = set(), []
        for c in out:
            k = (c["model"], c["branch"], c["reqKind"], c["paranoid"], c["dT"] <= 1e-3)
            if k not in seen:
                seen.add(k)
                pick.append(c)
        out = pick
        # cells that exposed defects repaired earlier (9340fa4: single-step downward integration; fefd880: ODE stage on a
        # spinodal), kept in the quick tier as regression cells
        extra = [dict(model="one", branch="sym", start=1.02, req=[1.01, 1.5], reqKind="in", dT=0.02, rTol=6, paranoid=False, u=0.01),
                 dict(model="one", branch="sym", start=1.3, req=[0.8, 1.5], reqKind="lo", dT=0.001, rTol=8, paranoid=True, u=1.0)]
        have = {json.dumps(c, sort_keys=True) for c in out}
        out += [c for c in extra if json.dumps(c, sort_keys=True) not in have]
    else:
        out = out[:1200]
    # the reported ranges lose 2 dT at each end: dT must keep Tc inside the coexistence range
    # (one-field model: Tc is 0.6% of T0 below the upper spinodal of the broken phase)
    tcs = [dict(model=mdl, u=u, dT=dT, rTol=tol, paranoid=par) for mdl in ("one", "two") for u in (1.0, 0.01, 100.0)
           for dT in ((3.16e-4, 1e-3) if mdl == "one" else (1e-3, 5e-3)) for tol in (6,) for par in (True, False)]
    if tier == "quick":
        tcs = tcs[::4]
    # phases traced by findCriticalTemperature itself (without re-minimisation: with it the request past a spinodal is
    # the subject of known finding C11-F1)
    tcs += [dict(model=mdl, u=u, dT=(1e-3 if mdl == "one" else 5e-3), rTol=6, paranoid=False, pretraced=False)
            for mdl in ("one", "two") for u in ((1.0,) if tier == "quick" else (1.0, 0.01, 100.0))]
    return out, tcs


def run(chk, tier, seed):
    res = tlc.run_model("PhaseTrace.tla", "PhaseTrace.cfg")
    chk.add_model(res, label="tracer loop with the property's assumption (re-minimisation never leaves a vanished branch)")
    res = tlc.run_model("PhaseTrace.tla", "PhaseTraceHop.cfg")
    chk.add_model(res, expect_violation="SameBranch", label="documented counterexample: overshoot + re-minimise onto another minimum + spinodal test passes")
    cs, tcs = cells(tier, seed)
    def lost(cell, why):
        return {"id": "lost_" + hex(zlib.crc32(json.dumps(cell, sort_keys=True, default=str).encode()))[2:], "ev": [{"e": "Lost", "out": "CellLost:" + why}],
                "cell": dict(cell, symptom="exception:CellLost")}

    with Pool(16) as pool:
        traces = limits.map_with_loss(pool, run_cell, cs, lost)
        traces += limits.map_with_loss(pool, run_tc, tcs, lost)
    for tr in traces:
        chk.count(tr["id"])
    chk.sample(traces[0])
    chk.sample(traces[-1])
    vr = tlc.validate("TracePhaseTrace.tla", "TracePhaseTrace.cfg", traces)
    chk.add_validation(vr, traces)
    chk.extra.update(cells_traced=len(cs), cells_tc=len(tcs), checker_cmd="tlc PhaseTrace.tla (2 variants) ; tlc TracePhaseTrace.tla")
    chk.rule = ("cells = model (one-field cubic-quartic, two-field Z2) x branch x start x request (inside / past lower / past upper / past both "
                "spinodals) x max step {3.16e-4,1e-3,5e-3,2e-2} T0 x rTol {1e-4,1e-6,1e-8} x paranoid x units {1,1e-2,1e2}; quick: one cell per "
                "(model, branch, request kind, paranoid, small/large step); distinct = distinct cell")
    chk.assumptions += ["truth: closed-form minima / spinodal temperatures of the polynomial potentials (harness/models.py)",
                        "threshold exemption: a spinodal within 40 ticks (4e-4 T0) of a requested end decides nothing"]


def replay(chk, path):
    with open(path) as f:
        tr = json.load(f)
    new = run_tc(tr["cell"]) if tr["cell"].get("kind") == "Tc" else run_cell(tr["cell"])
    print(json.dumps(new["ev"][0], indent=1))
    vr = tlc.validate("TracePhaseTrace.tla", "TracePhaseTrace.cfg", [new])
    chk.add_validation(vr, [new])
    return chk.finish()
