"""Shared measurement code for the hydrodynamics properties C02 C03 C05 C06 C15.

For an equation of state (closed form or traced from a potential), a nucleation temperature and a
list of wall velocities it runs the real Hydrodynamics / HydrodynamicsTemplateModel and records one
trace: an "Setup" event (vJ, vMin, window flags), one "Match" event per wall velocity with every
quantised observation the five properties need, and one "LTE" event.  TraceHydro.tla judges.
"""
import json
import math
import warnings
import zlib

import numpy as np

from .. import eos, quant

VT = 1e-7          # velocity tick
TT = 1e-6          # temperature tick (in units of Tn)
LIM = 2**31 - 1


def vt(v):
    return quant.ticks(v, VT)


def tt(T, Tn):
    return quant.ticks(T / Tn, TT)


def g2(v):
    return 1.0 / (1.0 - v * v)


def build(cell):
    """returns (thermodynamics-like object, label)"""
    if cell["eos"] in ("bag", "template", "twostep", "poly"):
        return eos.make_eos(cell["eos"], cell["Tn"], **cell["par"])
    raise ValueError(cell["eos"])


def velocities(hy, n, rng):
    vmin = max(hy.vMin, 0.01)
    cb = math.sqrt(hy.template.cb2)
    vJ = hy.vJ
    pts = [vmin * 1.001 + 1e-4, vmin + 0.02, 0.5 * (vmin + cb), cb * 0.98, cb * 0.9995, cb * 1.0005, cb * 1.02,
           0.5 * (cb + vJ), vJ * 0.98, vJ * 0.9995, vJ * 1.0005 + 1e-6, vJ + 0.02, 0.5 * (vJ + 0.99), 0.95, 0.99]
    pts += list(vmin + (0.99 - vmin) * rng.random(max(0, n - len(pts))))
    pts = sorted(set(round(min(max(v, vmin * 1.0005), 0.99), 9) for v in pts))
    if len(pts) > n:
        idx = np.linspace(0, len(pts) - 1, n).round().astype(int)
        pts = [pts[i] for i in sorted(set(idx))]
    return pts


def match_event(th, hy, vw, want_oracle=True, want_template=False):
    Tn = th.Tnucl
    ev = {"e": "Match", "vw": vt(vw), "out": "ok"}
    try:
        templ_calls = []
        orig = hy.template.findMatching

        def spy(v):
            templ_calls.append(v)
            return orig(v)

        hy.template.findMatching = spy
        try:
            vp, vm, Tp, Tm = hy.findMatching(vw)
        finally:
            hy.template.findMatching = orig
        ev["fallback"] = bool(templ_calls)
        if vp is None:
            ev["out"] = "none"
            return ev
        vp, vm, Tp, Tm = float(vp), float(vm), float(Tp), float(Tm)
        csm2 = float(th.csqLowT(Tm))
        ev.update(vp=vt(vp), vm=vt(vm), Tp=tt(Tp, Tn), Tm=tt(Tm, Tn), csm=vt(math.sqrt(max(csm2, 0.0))), csmOK=bool(csm2 > 0),
                  success=bool(hy.success) if vw <= hy.vJ else True)
        # C02: fluxes with the model's own equation of state
        wp, wm = float(th.wHighT(Tp)), float(th.wLowT(Tm))
        pp, pm = float(th.pHighT(Tp)), float(th.pLowT(Tm))
        fe_p, fe_m = wp * g2(vp) * vp, wm * g2(vm) * vm
        fm_p, fm_m = wp * g2(vp) * vp * vp + pp, wm * g2(vm) * vm * vm + pm
        ev["dE"] = quant.reldigits(fe_p, fe_m)
        ev["dM"] = quant.digits(abs(fm_p - fm_m) / max(wp * g2(vp) * vp * vp, abs(fm_p)))
        c1, c2, Tp2, Tm2, vmid = hy.findHydroBoundaries(vw)
        ev["dC1"] = min(quant.reldigits(-c1, fe_p), quant.reldigits(-c1, fe_m))
        ev["dC2"] = min(quant.digits(abs(c2 - fm_p) / max(wp * g2(vp) * vp * vp, abs(fm_p))), quant.digits(abs(c2 - fm_m) / max(wp * g2(vp) * vp * vp, abs(fm_p))))
        ev["dMid"] = quant.reldigits(vmid, -0.5 * (vp + vm))
        ev["sameT"] = bool(Tp2 == Tp and Tm2 == Tm)
        # C05: entropy mismatch of this matching
        S = Tp * math.sqrt(g2(vp)) - Tm * math.sqrt(g2(vm))
        ev["sS"] = quant.sign(S, 1e-9 * Tn)
        ev["dS"] = quant.digits(abs(S) / Tn)
        # C03: independent flow profile
        if want_oracle:
            if vw > hy.vJ:
                ev["dTn"], ev["dMom"], ev["csConst"] = 16, 16, True
                sh = None
            else:
                sh = eos.shock_oracle(th, vw, vp, Tp)
                if sh is None:
                    ev["dTn"], ev["dMom"] = -1, -1
                else:
                    ev["dTn"] = quant.digits(abs(sh["TnOracle"] - Tn) / Tn)
                    ev["dMom"] = quant.digits(sh["momResidual"])
                # constant sound speed ahead of the wall?
                c_a, c_b = float(th.csqHighT(Tn)), float(th.csqHighT(Tp))
                ev["csConst"] = bool(abs(c_a - c_b) <= 1e-12 * c_a)
            kap = float(hy.efficiencyFactor(vw))
            ko = eos.kappa_oracle(th, vw, vp, vm, Tp, Tm, hy.template.alN, sh)
            ev["dKappa"] = quant.reldigits(kap, ko, floor=1e-3)      # 1e-2 relative or 1e-5 absolute
            ev["kappa"] = quant.ticks(kap, 1e-7)
        if want_template:
            r = hy.template.findMatching(min(vw, hy.template.vJ - 1e-6) if vw <= hy.vJ else max(vw, hy.template.vJ + 1e-6))
            if r[0] is None:
                ev["tOut"] = "none"
            else:
                ev["tOut"] = "ok"
                tvp, tvm, tTp, tTm = map(float, r)
                ev.update(tvp=vt(tvp), tvm=vt(tvm), tTp=tt(tTp, Tn), tTm=tt(tTm, Tn))
                tc = hy.template.findHydroBoundaries(vw)
                ev["dC1t"] = quant.reldigits(c1, tc[0]) if tc[0] is not None else -1
                ev["dC2t"] = quant.reldigits(c2, tc[1]) if tc[1] is not None else -1
                if want_oracle:
                    ev["dKappaT"] = quant.reldigits(kap, float(hy.template.efficiencyFactor(vw)), floor=1e-3)
    except Exception as ex:  # outcome judged by TLC
        ev["out"] = type(ex).__name__
        ev["msg"] = str(ex)[:160]
    return ev


def kappa_event(th, hy, vw, want_template):
    """efficiency factor of a plain deflagration vs the kinetic-energy integral of the profile of the SAME matching"""
    ev = {"e": "Kappa", "vw": vt(vw), "out": "ok"}
    try:
        vp, vm, Tp, Tm = map(float, hy.findMatching(vw))
        sh = eos.shock_oracle(th, vw, vp, Tp)
        ko = eos.kappa_oracle(th, vw, vp, vm, Tp, Tm, hy.template.alN, sh)
        kap = float(hy.efficiencyFactor(vw))
        ev["dKappaRel"] = quant.reldigits(kap, ko, floor=1e-12) if sh is not None else -1
        ev["kappa"] = quant.ticks(kap, 1e-9)
        ev["dKappaTRel"] = quant.reldigits(kap, float(hy.template.efficiencyFactor(vw)), floor=1e-12) if want_template else 16
    except Exception as ex:
        ev["out"] = type(ex).__name__
        ev["msg"] = str(ex)[:160]
    return ev


def run_trace(cell):
    """one trace for one (EOS, Tn) cell"""
    import WallGo

    warnings.filterwarnings("ignore")
    rng = np.random.default_rng(zlib.crc32(json.dumps(cell, sort_keys=True).encode()))
    evs = []
    tid = "{eos}_{tag}".format(**cell)
    try:
        th = build(cell)
        Tn = th.Tnucl
        hy = WallGo.Hydrodynamics(th, cell.get("tmax", 10.0), cell.get("tmin", 0.01), cell.get("rtol", 1e-6), cell.get("atol", 1e-10))
        setup = {"e": "Setup", "vJ": vt(hy.vJ), "vMin": vt(hy.vMin), "cb": vt(math.sqrt(hy.template.cb2)), "cs": vt(math.sqrt(hy.template.cs2)),
                 "alN": quant.ticks(hy.template.alN, 1e-7), "isTemplate": cell["eos"] in ("template", "bag"),
                 "tvJ": vt(hy.template.vJ), "tvMin": vt(hy.template.vMin)}
        if cell.get("window"):
            fd = hy.fastestDeflag()
            setup.update(fastest=vt(fd), limHigh=bool(hy.doesPhaseTraceLimitvmax[0]), limLow=bool(hy.doesPhaseTraceLimitvmax[1]),
                         TMaxHigh=tt(hy.TMaxHighT, Tn), TMaxLow=tt(hy.TMaxLowT, Tn), slowest=vt(hy.slowestDeton()))
        evs.append(setup)
        vws = velocities(hy, cell.get("nv", 12), rng)
        vws = sorted(set(vws) | {hy.vJ - d for d in cell.get("belowJouguet", [])} | set(cell.get("vws", [])))
        for vw in vws:
            evs.append(match_event(th, hy, vw, cell.get("oracle", True), cell.get("template", False)))
        if cell.get("oracle", True):
            cb = math.sqrt(hy.template.cb2)
            for vw in (0.003, 0.006, 0.03, 0.1, 0.25):
                if 1.2 * hy.vMin <= vw <= 0.8 * min(cb, hy.vJ):
                    evs.append(kappa_event(th, hy, vw, cell.get("template", False)))
        if cell.get("lte", True):
            lte = {"e": "LTE", "out": "ok"}
            try:
                v = float(hy.findvwLTE())
                lte["v"] = vt(v)
                lte["ret"] = "one" if v == 1 else ("zero" if v == 0 else "root")
                lte["success"] = bool(hy.success)
                # the manager's entry point (what a user calls) must hand through exactly this value, sentinels included
                man = WallGo.WallGoManager()
                man.hydrodynamics = hy
                lte["mgrSame"] = bool(float(man.wallSpeedLTE()) == v)
                if lte["ret"] == "root":
                    m = match_event(th, hy, v, want_oracle=False)
                    lte["dSroot"] = m.get("dS", -1)
                    lte["rootMatchOK"] = bool(m.get("out") == "ok" and m.get("dE", -1) >= 5 and m.get("dM", -1) >= 5)
            except Exception as ex:
                lte["out"] = type(ex).__name__
                lte["msg"] = str(ex)[:160]
            if cell.get("template"):
                # the template solver's own answer, observed separately from the general solver's: an exception here is
                # NOT the general solver's known error path
                try:
                    tv = float(hy.template.findvwLTE())
                    lte.update(tv=vt(tv), tret="one" if tv == 1 else ("zero" if tv == 0 else "root"), tout="ok")
                except Exception as ex:
                    lte.update(tv=-1, tret="raised", tout=type(ex).__name__, tmsg=str(ex)[:160])
            evs.append(lte)
        # call history: this object has answered many calls by now; a matching asked for right after one at a velocity 3e-6 away
        # must be the matching a NEW Hydrodynamics object gives for that velocity (deflagration and detonation side)
        if evs and "vJ" in evs[0]:
            cbv = math.sqrt(hy.template.cb2)
            hist = {"e": "Hist", "out": "ok", "n": 0, "dTicks": 0}
            try:
                hy2 = WallGo.Hydrodynamics(th, cell.get("tmax", 10.0), cell.get("tmin", 0.01), cell.get("rtol", 1e-6), cell.get("atol", 1e-10))
                for v0 in (0.5 * (max(hy.vMin, 0.02) + min(cbv, hy.vJ)), 0.5 * (hy.vJ + 1.0)):
                    if not (hy.vMin < v0 < 0.995):
                        continue
                    try:
                        hy.findMatching(v0)
                        a = hy.findMatching(v0 + 3e-6)
                        b = hy2.findMatching(v0 + 3e-6)
                    except Exception:          # the matchings themselves are judged by the Match events
                        continue
                    if any(x is None for x in tuple(a) + tuple(b)) or not all(np.isfinite(float(x)) for x in tuple(a) + tuple(b)):
                        continue
                    hist["n"] += 1
                    hist["dTicks"] = max(hist["dTicks"], max(abs(vt(float(a[i])) - vt(float(b[i]))) for i in (0, 1)),
                                         max(abs(tt(float(a[i]), Tn) - tt(float(b[i]), Tn)) for i in (2, 3)))
            except Exception as ex:
                hist.update(out=type(ex).__name__, msg=str(ex)[:160])
            evs.append(hist)
    except Exception as ex:
        evs.append({"e": "Setup", "out": type(ex).__name__, "msg": str(ex)[:200]})
    # description of the observation, used ONLY to match entries of known_findings.json (the verdict is TLC's)
    su = evs[0] if evs and "vJ" in evs[0] else None
    ms = [e for e in evs if e.get("e") == "Match" and e.get("out") == "ok"]
    sym = []
    if su:
        weak = 0 if su["alN"] >= 1000000 else (1 if su["alN"] >= 100000 else 2)
        for e in ms:
            # a hybrid within 1.5% below vJ, faster than the advertised fastest deflagration of a cell whose phase range cuts the
            # window short, answered with the template fallback (finding C06-F3); nothing else is attributed to it
            if ("fastest" in su and e.get("fallback") and (su.get("limHigh") or su.get("limLow")) and su["fastest"] < e["vw"] <= su["vJ"]
                    and su["vJ"] - e["vw"] <= su["vJ"] * 15 // 1000):
                sym.append("nearJouguetFallbackBeyondRange")
                continue
            vb = 4 if e["vw"] <= 9000000 else (3 if e["vw"] <= 9700000 else 2)
            bound = max(1, vb - weak)
            flux_bad = min(e["dE"], e["dM"], e["dC1"], e["dC2"]) < bound
            if flux_bad and e["vw"] <= 200000:
                sym.append("slowWallFluxMismatch")
            elif flux_bad and not e.get("success", True):
                sym.append("unconvergedReturned")
            elif not e.get("success", True):
                sym.append("unconvergedFlag")
            elif flux_bad:
                sym.append("fluxMismatchOther")
            # hybrids within 1% of the Jouguet velocity: the flow from the returned (v+, T+) misses Tn, or (template equations of
            # state) v+ is off the exact value, although the junction conditions at the wall hold
            nearJ = e["vw"] <= su["vJ"] and su["vJ"] - e["vw"] <= su["vJ"] // 100
            offT = "tvp" in e and abs(e["vp"] - e["tvp"]) > 500
            if nearJ and (e.get("dTn", 16) < 5 or offT) and not flux_bad:
                sym.append("nearJouguetShockMismatch")
            elif e["vw"] <= su["vJ"] and e.get("dTn", 16) < 4:
                sym.append("shockMismatchOther")
        if "fastest" in su and ms:
            first = ms[0]
            if first["Tp"] > su["TMaxHigh"] + 30 or first["Tm"] > su["TMaxLow"] + 30:
                sym.append("rangeExceededOnWholeWindow")
    lte = [e for e in evs if e.get("e") == "LTE"]
    if lte and lte[0].get("out") == "WallGoError" and "matchDeflagOrHyb" in lte[0].get("msg", ""):
        sym.append("lteException")                 # the general solver's known error path (C05-F1)
    elif lte and lte[0].get("out") != "ok":
        sym.append("lteOtherException")
    elif lte and lte[0].get("success") is False:
        sym.append("lteUnconverged")
    if lte and lte[0].get("tout", "ok") != "ok":
        sym.append("templateLteException")
    cell = dict(cell, symptoms=sorted(set(sym)), symptom=(sorted(set(sym))[0] if len(set(sym)) == 1 else ("none" if not sym else "several")))
    return {"id": tid, "ev": evs, "cell": cell}


def eos_cells(tier, seed, template_only=False, nv=12, window=False):
    """lattice of equations of state x nucleation temperatures"""
    rng = np.random.default_rng(seed)
    cells = []
    tns = [1e-2, 1.0, 1e3] if tier == "quick" else [1e-2, 1e-1, 1.0, 10.0, 1e3]
    # transition strength alpha_n = (1 - psi_n)/3 + delta (as in the repository's own template tests: the vacuum
    # energy must be positive), delta from 1e-3 to order one
    deltas = [1e-3, 1e-2, 0.1, 0.5] if tier == "quick" else [1e-3, 3e-3, 1e-2, 3e-2, 0.1, 0.3, 1.0]
    psis = [0.6, 0.9] if tier == "quick" else [0.5, 0.7, 0.85, 1.0]
    cs2s = [0.25, 1 / 3] if tier == "quick" else [0.2, 0.27, 1 / 3]
    k = 0
    for dl in deltas:
        for psi in psis:
            for cs2 in cs2s:
                for cb2 in cs2s:
                    k += 1
                    if tier == "quick" and k % 3 != (seed % 3):
                        continue
                    Tn = tns[k % len(tns)]
                    # domain of the template equation of state: alpha_n above (1 - psi_n)/3 (positive vacuum energy) and, when
                    # the sound speed behind exceeds the one ahead, above (mu - nu)/(3 mu) as well (the template solver's own
                    # lower bound on alpha; below it its matching returns NaN)
                    mu, nu = 1 + 1 / cs2, 1 + 1 / cb2
                    al = max((1 - psi) / 3, (mu - nu) / (3 * mu)) + dl
                    cells.append(dict(eos="template", Tn=Tn, par=dict(alN=al, psiN=psi, cs2=cs2, cb2=cb2, scale=float(10 ** rng.uniform(-2, 2))),
                                      tag=f"dal{dl}_psi{psi}_cs{cs2:.3f}_cb{cb2:.3f}_Tn{Tn}", nv=nv, template=True))
    if not template_only:
        for psi in ([0.7, 0.9] if tier == "quick" else [0.5, 0.7, 0.85, 0.95]):
            for tnr in ([0.8, 0.95] if tier == "quick" else [0.6, 0.8, 0.9, 0.97]):
                for Tc in ([1.0, 100.0] if tier == "quick" else [1e-2, 1.0, 100.0]):
                    cells.append(dict(eos="bag", Tn=tnr * Tc, par=dict(psi=psi, Tc=Tc), tag=f"psi{psi}_tn{tnr}_Tc{Tc}", nv=nv))
        for tnr in ([0.8, 0.9] if tier == "quick" else [0.7, 0.8, 0.9, 0.95]):
            for Tc in ([1.0, 50.0] if tier == "quick" else [1e-2, 1.0, 50.0]):
                cells.append(dict(eos="twostep", Tn=tnr * Tc, par=dict(Tc=Tc), tag=f"tn{tnr}_Tc{Tc}", nv=nv))
        # sound speeds that depend markedly on temperature in both phases (cs2 0.26..0.30 ahead of the wall): conditions that
        # coincide for a constant sound speed (energy- vs momentum-flux crossing of the shock front, Jouguet velocity of the
        # fitted template vs of the equation of state) come apart here
        for (psi, s2, b2, eps, tnr) in ([(0.7, -0.4, -0.45, 0.35, 0.8)] if tier == "quick" else [(0.7, -0.4, -0.45, 0.35, 0.8), (0.8, -0.5, -0.5, 0.2, 0.85), (0.7, -0.4, -0.45, 0.35, 0.9)]):
            for Tc in ([1.0] if tier == "quick" else [1e-2, 1.0, 100.0]):
                cells.append(dict(eos="poly", Tn=tnr * Tc, par=dict(psi=psi, s2=s2, b2=b2, eps=eps, Tc=Tc, scale=float(10 ** rng.uniform(-2, 2))),
                                  tag=f"psi{psi}_s{s2}_b{b2}_eps{eps}_tn{tnr}_Tc{Tc}", nv=nv, belowJouguet=[0.01, 0.03]))
        # very small numbers in the user's units (an MeV-scale transition in GeV): energy densities ~1e-11, next to the
        # solver's default absolute tolerance 1e-10
        for Tc in ([1e-3] if tier == "quick" else [1e-3, 3e-3]):
            cells.append(dict(eos="bag", Tn=0.8 * Tc, par=dict(psi=0.8, Tc=Tc), tag=f"psi0.8_tn0.8_Tc{Tc}", nv=nv))
            cells.append(dict(eos="twostep", Tn=0.9 * Tc, par=dict(Tc=Tc), tag=f"tn0.9_Tc{Tc}", nv=nv))
    return cells
