"""C18 -- interpolated functions honour their evaluation contract for every call history.

1. TLC checks InterpFn.tla exhaustively (rule matrix = contract in every reachable state).
2. TLC generates behaviours (SimInterpFn: all 16 mode pairs x adaptive on/off as initial
   states, then operation sequences); each behaviour is replayed on real subclasses of
   InterpolatableFunction (cubic and transcendental test functions, 1..4 return values,
   NaN at the model's `Bad` lattice point).
3. The recorded calls -- outcome, rule observed per element, abstract state, shapes,
   table health, accuracy -- are validated by TLC against TraceInterpFn.tla.
"""
import json
import math
import os
import random

import numpy as np
from scipy.interpolate import CubicSpline

from .. import quant, tlc

LEVEL = "model_checking"
X0, DELTA = 0.5, 0.25          # current lattice -> real map (set per trace by set_map)
MAPS = [(0.5, 0.25), (0.3, 0.1), (-7.1, 0.37), (1000.1, 13.7), (2.0, 0.05)]


def set_map(i):
    global X0, DELTA
    X0, DELTA = MAPS[i % len(MAPS)]
BAD = 5
THR, K0 = 3, 10


def pos(k):
    return X0 + np.asarray(k, dtype=float) * DELTA


def make_class():
    from WallGo import InterpolatableFunction

    class Fn(InterpolatableFunction):
        def __init__(self, kind, rvc):
            super().__init__(bUseAdaptiveInterpolation=False, initialInterpolationPointCount=K0, returnValueCount=rvc)
            self.kind, self.rvc = kind, rvc
            self._evaluationsUntilAdaptiveUpdate = THR
            self.direct_calls = []
            self.impl_calls = []

        def truth(self, x, order=0):
            u = (np.asarray(x, dtype=float) - X0) / (4 * DELTA)      # normalised abscissa
            x = u
            comps = []
            for j in range(self.rvc):
                if self.kind == "cubic":
                    c = [1.0 + j, -0.5 + 0.3 * j, 0.25 - 0.1 * j, 0.125 + 0.05 * j]
                    p = np.polynomial.polynomial.polyder(c, order) if order else np.array(c)
                    v = np.polynomial.polynomial.polyval(x, p)
                else:
                    w = 0.2 + 0.05 * j
                    v = [np.sin(w * x) + 0.1 * x, w * np.cos(w * x) + 0.1, -w * w * np.sin(w * x)][order]
                comps.append(v)
            out = np.stack(comps, axis=-1) if self.rvc > 1 else comps[0]
            return out / (4 * DELTA) ** order

        def _functionImplementation(self, x):
            x = np.asarray(x, dtype=float)
            self.impl_calls.append(np.ravel(x).copy())
            v = np.array(self.truth(x), dtype=float, copy=True)
            bad = np.abs(x - pos(BAD)) < 1e-9 * DELTA
            if np.any(bad):
                if self.rvc > 1:
                    v[bad, 0] = np.nan       # one component non-finite marks the point invalid
                else:
                    v = np.where(bad, np.nan, v)
            return v

        def _evaluateDirectly(self, x, bScheduleForInterpolation=True):
            self.direct_calls.append(np.ravel(np.asarray(x, dtype=float)).copy())
            return super()._evaluateDirectly(x, bScheduleForInterpolation)

    return Fn


def tick(v):
    return int(round((float(v) - X0) / DELTA))


def project(f):
    has = bool(f.hasInterpolation())
    st = {"has": has, "mLo": f.extrapolationTypeLower.name, "mHi": f.extrapolationTypeUpper.name,
          "ad": bool(f._bUseAdaptiveInterpolation), "pend": int(f._directEvaluateCount)}
    pts = np.asarray(f._directlyEvaluatedAt, dtype=float)
    st["pLo"] = tick(np.min(pts)) if pts.size else 0
    st["pHi"] = tick(np.max(pts)) if pts.size else 0
    if has:
        xs = np.asarray(f._interpolationPoints, dtype=float)
        vs = np.asarray(f._interpolationValues, dtype=float)
        st.update(lo=tick(f.interpolationRangeMin()), hi=tick(f.interpolationRangeMax()), n=int(xs.size),
                  sorted=bool(np.all(np.diff(xs) > 0)), finite=bool(np.all(np.isfinite(vs)) and np.all(np.isfinite(xs))),
                  loExact=bool(f.interpolationRangeMin() == pos(tick(f.interpolationRangeMin()))),
                  hiExact=bool(f.interpolationRangeMax() == pos(tick(f.interpolationRangeMax()))))
    else:
        st.update(lo=0, hi=0, n=0, sorted=True, finite=True, loExact=True, hiExact=True)
    return st


def snapshot(f):
    if not f.hasInterpolation():
        return None
    xs = np.array(f._interpolationPoints, dtype=float)
    vs = np.array(f._interpolationValues, dtype=float)
    try:
        ref = CubicSpline(xs, vs, extrapolate=True, axis=0)
    except Exception:
        return None
    return dict(ref=ref, lo=float(f.interpolationRangeMin()), hi=float(f.interpolationRangeMax()), n=len(xs))


def snap_after(f, before):
    """the table after the call, if the call changed it"""
    now = snapshot(f)
    if now is None or before is None:
        return now
    if now["lo"] == before["lo"] and now["hi"] == before["hi"] and len(f._interpolationPoints) == before.get("n", -1):
        return None
    return now


def shape_input(xs, shape):
    X = pos(xs)
    if shape == "scalar":
        return float(X[0])
    if shape == "list":
        return [float(v) for v in X]
    if shape == "2d":
        return X.reshape(2, -1)
    return X


def close(a, b, rtol=1e-11):
    a, b = np.asarray(a, float), np.asarray(b, float)
    if a.shape != b.shape:
        return False
    return bool(np.allclose(a, b, rtol=rtol, atol=1e-13, equal_nan=True))


def do_eval(f, op):
    xs, ui, shape = op["xs"], op["ui"], op["shape"]
    snap = snapshot(f)
    f.direct_calls.clear()
    ev = {"e": "Eval", "xs": xs, "ui": ui, "shape": shape, "fn": f.kind, "rvc": f.rvc}
    try:
        res = np.asarray(f(shape_input(xs, shape), ui))
        ev["out"] = "ok"
    except Exception as ex:  # outcome is judged by TLC
        ev["out"] = type(ex).__name__
        ev["msg"] = str(ex)[:120]
        return ev
    ev["shapeOut"] = list(res.shape)
    n = len(xs)
    direct_pts = np.concatenate(f.direct_calls) if f.direct_calls else np.array([])
    flat = res.reshape((n,) + ((f.rvc,) if f.rvc > 1 else ())) if res.size == n * f.rvc else None
    rules, worst = [], 16
    X = pos(xs)
    for i in range(n):
        if flat is None:
            rules.append("garbage")
            continue
        v = flat[i]
        if direct_pts.size and np.any(direct_pts == X[i]):
            rules.append("direct")
            worst = min(worst, quant.reldigits(np.nan_to_num(v, nan=7.0), np.nan_to_num(f._functionImplementationQuiet(X[i]), nan=7.0), floor=1.0))
            continue
        if snap is None:
            rules.append("garbage")
            continue
        # The reference is the table as it was when the call was made: an adaptive update can fire in the middle of the
        # call (the directly evaluated side may rebuild the table), and the other side must still be served from the table
        # its points were classified against (repaired in a088852: it used the new range end).
        got = "garbage"
        for sn in (snap,):
            if sn is None:
                continue
            inr = sn["lo"] <= X[i] <= sn["hi"]
            if inr and close(v, sn["ref"](X[i])):
                got = "spline"
                worst = min(worst, quant.reldigits(v, f.truth(X[i]), floor=1.0))
            elif (not inr) and close(v, sn["ref"](sn["lo"] if X[i] < sn["lo"] else sn["hi"])):
                got = "boundary"
            elif (not inr) and close(v, sn["ref"](X[i])):
                got = "extrap"
            if got != "garbage":
                break
        rules.append(got)
    ev["rules"] = rules
    ev["d"] = worst
    # largest gap of the table the call started from, in tenths of the function's own length unit (4 DELTA): what a cubic
    # spline can resolve depends on it (the table grows unevenly through adaptive updates)
    if snap is not None:
        gaps = np.diff(np.sort(np.asarray(snap["ref"].x, float)))
        ev["hmax10"] = int(math.ceil(10 * float(np.max(gaps)) / (4 * DELTA))) if gaps.size else 0
    else:
        ev["hmax10"] = 0
    return ev


def do_deriv(f, op):
    xs, order, ui, shape = op["xs"], op["order"], op["ui"], op["shape"]
    snap = snapshot(f)
    f.direct_calls.clear()
    ev = {"e": "Deriv", "xs": xs, "order": order, "ui": ui, "shape": shape, "fn": f.kind, "rvc": f.rvc}
    try:
        res = np.asarray(f.derivative(shape_input(xs, shape), order=order, bUseInterpolation=ui))
        ev["out"] = "ok"
    except Exception as ex:
        ev["out"] = type(ex).__name__
        ev["msg"] = str(ex)[:120]
        return ev
    ev["shapeOut"] = list(res.shape)
    n = len(xs)
    direct_pts = np.concatenate(f.direct_calls) if f.direct_calls else np.array([])
    flat = res.reshape((n,) + ((f.rvc,) if f.rvc > 1 else ())) if res.size == n * f.rvc else None
    rules, worst = [], 16
    X = pos(xs)
    for i in range(n):
        if flat is None:
            rules.append("garbage")
            continue
        v = flat[i]
        true = f.truth(X[i], order)
        near_bad = abs(X[i] - pos(BAD)) < 1e-2 * DELTA
        if direct_pts.size and np.any(np.abs(direct_pts - X[i]) < 0.02 * DELTA):
            rules.append("ddirect")
            if not near_bad:
                worst = min(worst, quant.reldigits(v, true, floor=1.0))
            continue
        if snap is None:
            rules.append("garbage")
            continue
        inr = snap["lo"] <= X[i] <= snap["hi"]
        dref = snap["ref"].derivative(order)
        if inr and close(v, dref(X[i]), rtol=1e-9):
            rules.append("dspline")
            worst = min(worst, quant.reldigits(v, true, floor=1.0))
        elif (not inr) and np.all(np.abs(v) < 1e-7 / DELTA ** order):
            rules.append("dzero")
        elif (not inr) and close(v, dref(X[i]), rtol=1e-3 if order == 1 else 3e-2):
            rules.append("dextrap")
        else:
            rules.append("garbage")
    ev["rules"] = rules
    ev["d"] = worst
    return ev


def replay_behaviour(Fn, beh, kind, rvc, tmpdir, tid):
    f = Fn(kind, rvc)
    # quiet evaluation of the underlying function (not recorded, for the oracle only)
    f._functionImplementationQuiet = lambda x: _quiet(f, x)
    from WallGo import EExtrapolationType as E

    evs = []
    for op in beh:
        name = op["op"]
        ev = None
        if name == "SetModes":
            ev = {"e": "SetModes", "l": op["l"], "u": op["u"]}
            try:
                f.setExtrapolationType(E[op["l"]], E[op["u"]])
                ev["out"] = "ok"
            except Exception as ex:
                ev["out"] = type(ex).__name__
        elif name == "EnableAdaptive":
            f.enableAdaptiveInterpolation()
            ev = {"e": "EnableAdaptive"}
        elif name == "DisableAdaptive":
            f.disableAdaptiveInterpolation()
            ev = {"e": "DisableAdaptive"}
        elif name == "NewTable":
            a, b = op["a"], op["b"]
            k = 2 * (b - a) + 1
            grid = np.linspace(pos(a), pos(b), k)
            expect = int(np.sum(np.all(np.isfinite(np.asarray(_quiet(f, grid)).reshape(k, -1)), axis=1)))
            ev = {"e": "NewTable", "a": a, "b": b, "k": k, "expectKept": expect}
            try:
                f.newInterpolationTable(float(pos(a)), float(pos(b)), k)
                ev["out"] = "ok"
                ev["kept"] = int(f.numPoints())
            except Exception as ex:
                ev["out"] = type(ex).__name__
                ev["msg"] = str(ex)[:120]
                ev["kept"] = -1
        elif name == "Extend":
            a, b, kl, kh = op["a"], op["b"], op["kl"], op["kh"]
            if f.hasInterpolation():
                lo, hi = tick(f.interpolationRangeMin()), tick(f.interpolationRangeMax())
                pmin = (2 * (lo - a) if a < lo else 3) if kl else 0
                pmax = (2 * (b - hi) if b > hi else 3) if kh else 0
            else:
                pmin = (b - a + 3) if kl else 0
                pmax = (b - a + 3) if kh else 0
            ev = {"e": "Extend", "a": a, "b": b, "kl": kl, "kh": kh, "pmin": pmin, "pmax": pmax}
            try:
                f.extendInterpolationTable(float(pos(a)), float(pos(b)), pmin, pmax)
                ev["out"] = "ok"
            except Exception as ex:
                ev["out"] = type(ex).__name__
                ev["msg"] = str(ex)[:120]
        elif name == "Eval":
            ev = do_eval(f, op)
        elif name == "Deriv":
            ev = do_deriv(f, op)
        elif name == "WriteRead":
            path = os.path.join(tmpdir, f"tab_{tid}_{len(evs)}.txt")
            ev = {"e": "WriteRead"}
            try:
                f.writeInterpolationTable(path)
                g = Fn(kind, rvc)
                g.readInterpolationTable(path)
                ev["out"] = "ok"
                ev["sameN"] = bool(g.numPoints() == f.numPoints())
                ev["sameLo"] = bool(abs(g.interpolationRangeMin() - f.interpolationRangeMin()) <= 1e-13 * max(1, abs(f.interpolationRangeMin())))
                ev["sameHi"] = bool(abs(g.interpolationRangeMax() - f.interpolationRangeMax()) <= 1e-13 * max(1, abs(f.interpolationRangeMax())))
                span = f.interpolationRangeMax() - f.interpolationRangeMin()
                # %.15g rounds the end points: probe strictly inside the common range
                pts = np.linspace(f.interpolationRangeMin() + 1e-9 * span, f.interpolationRangeMax() - 1e-9 * span, 37)
                ev["dval"] = quant.reldigits(g.evaluateInterpolation(pts), f.evaluateInterpolation(pts), floor=1.0)
                os.remove(path)
            except Exception as ex:
                ev["out"] = type(ex).__name__
                ev["msg"] = str(ex)[:120]
                ev.update(sameN=False, sameLo=False, sameHi=False, dval=-1)
        ev["st"] = project(f)
        evs.append(ev)
    return evs


def _quiet(f, x):
    n_impl = len(f.impl_calls)
    v = type(f)._functionImplementation(f, x)
    del f.impl_calls[n_impl:]
    return v


def cell_of(evs, rvc):
    """structural key of the first event TLC could reject -- used for known-finding matching"""
    return {"rvc": rvc}


def endnan_traces(tier):
    """tables whose FIRST or LAST rows are non-finite: the table range is that of the rows kept, and the stretch between the
    dropped end and the first kept abscissa is out of range -- it follows the side's mode (modes set BEFORE the table is
    built, so no rebuild intervenes).  Real abscissae, outside the lattice model; judged by TEndNaN."""
    from scipy.interpolate import CubicSpline
    from WallGo import InterpolatableFunction, EExtrapolationType as E

    traces = []
    for rvc in (1, 2):
        for side in ("lo", "hi"):
            for nbad in ((1,) if tier == "quick" else (1, 3)):
                evs = []
                for mode in ("ERROR", "NONE", "CONSTANT", "FUNCTION"):
                    a, b, n = -1.3, 2.9, 22
                    xs_all = np.linspace(a, b, n)
                    badx = xs_all[:nbad] if side == "lo" else xs_all[-nbad:]

                    class F(InterpolatableFunction):
                        def __init__(self):
                            super().__init__(bUseAdaptiveInterpolation=False, initialInterpolationPointCount=10, returnValueCount=rvc)
                            self.direct = []

                        def truth(self, x):
                            x = np.asarray(x, float)
                            comps = [0.3 + 0.7 * x - 0.2 * x**2 + 0.05 * (j + 1) * x**3 for j in range(rvc)]
                            return np.stack(comps, axis=-1) if rvc > 1 else comps[0]

                        def _functionImplementation(self, x):
                            x = np.asarray(x, float)
                            v = np.array(self.truth(x), float, copy=True)
                            bad = np.zeros(x.shape, bool)
                            for bx in badx:
                                bad |= np.abs(x - bx) < 1e-12
                            if np.any(bad):
                                if rvc > 1:
                                    v[bad, 0] = np.inf
                                else:
                                    v = np.where(bad, np.nan, v)
                            return v

                        def _evaluateDirectly(self, x, bScheduleForInterpolation=True):
                            self.direct.append(np.ravel(np.asarray(x, float)).copy())
                            return super()._evaluateDirectly(x, bScheduleForInterpolation)

                    f = F()
                    f.setExtrapolationType(E[mode], E[mode])
                    ev = {"e": "EndNaN", "side": side, "mode": mode, "rvc": rvc, "nbad": nbad, "rangeKept": False, "rule": "garbage", "drule": "garbage"}
                    try:
                        f.newInterpolationTable(a, b, n)
                        kept = xs_all[nbad:] if side == "lo" else xs_all[:-nbad]
                        ev["rangeKept"] = bool(f.interpolationRangeMin() == kept.min() and f.interpolationRangeMax() == kept.max())
                        gap = 0.5 * (badx[-1] + kept[0]) if side == "lo" else 0.5 * (kept[-1] + badx[0])
                        edge = kept[0] if side == "lo" else kept[-1]
                        ref = CubicSpline(kept, f.truth(kept), extrapolate=True)
                        for what in ("rule", "drule"):
                            f.direct.clear()
                            try:
                                v = np.asarray(f(gap) if what == "rule" else f.derivative(gap, order=1), float)
                            except ValueError:
                                ev[what] = "raise"
                                continue
                            if what == "rule":
                                cands = (("direct", None), ("boundary", ref(edge)), ("extrap", ref(gap)))
                            else:
                                cands = (("ddirect", None), ("dzero", 0.0 * ref(edge)), ("dextrap", ref(gap, 1)))
                            got = "garbage"
                            if f.direct and np.all(np.isfinite(v)):
                                got = cands[0][0]
                            else:
                                for name, val in cands[1:]:
                                    if np.all(np.isfinite(v)) and np.allclose(np.ravel(v), np.ravel(val), rtol=1e-9, atol=1e-12):
                                        got = name
                                        break
                            ev[what] = got
                    except Exception as ex:
                        ev["exc"] = type(ex).__name__ + ": " + str(ex)[:100]
                    evs.append(ev)
                traces.append({"id": f"endnan_rvc{rvc}_{side}_n{nbad}", "ev": evs, "cell": {"kind": "endnan", "rvc": rvc, "side": side, "nbad": nbad}, "behaviour": []})
    return traces


_MIDCALL = [{"l": "FUNCTION", "u": "ERROR", "op": "SetModes"}, {"op": "EnableAdaptive"}, {"op": "Eval", "xs": [2], "ui": True, "shape": "scalar"},
            {"op": "Eval", "xs": [11], "ui": True, "shape": "scalar"}, {"op": "NewTable", "a": 8, "b": 12},
            {"op": "Deriv", "xs": [1, 2], "order": 2, "ui": True, "shape": "1d"}, {"op": "Deriv", "xs": [0], "order": 1, "ui": True, "shape": "list"},
            {"op": "NewTable", "a": 2, "b": 4}, {"op": "SetModes", "l": "NONE", "u": "CONSTANT"}, {"op": "Eval", "xs": [0, 5], "ui": True, "shape": "2d"}]
REGRESSION = [(_MIDCALL, "cubic", 1), (_MIDCALL, "cubic", 3), (_MIDCALL, "trans", 2),
              (_MIDCALL[:8] + [{"op": "SetModes", "l": "NONE", "u": "FUNCTION"}, {"op": "Eval", "xs": [0, 5], "ui": True, "shape": "2d"}], "cubic", 1)]


def run(chk, tier, seed):
    res = tlc.run_model("InterpFn.tla", "InterpFn.cfg", coverage=(tier == "thorough"))
    chk.add_model(res, label="exhaustive L=6, MAXLEN=2: contract (rule matrix) in every reachable state")
    num = 150 if tier == "quick" else 1500
    depth = 12
    behs = []
    for k, sd in enumerate([seed, seed + 1000] if tier == "quick" else [seed + 1000 * j for j in range(6)]):
        b = tlc.behaviours("SimInterpFn.tla", "SimInterpFn.cfg", simulate=num, depth=depth + 1, seed=sd)
        behs += b["behaviours"]
        chk.extra.setdefault("generator_states", 0)
        chk.extra["generator_states"] += b["generated"]
    uniq = {json.dumps(b, sort_keys=True): b for b in behs}
    behs = list(uniq.values())
    rng = random.Random(seed)
    rng.shuffle(behs)
    cap = 500 if tier == "quick" else 6000
    behs = behs[:cap]
    Fn = make_class()
    tmpdir = tlc.scratch()
    traces = []
    for i, beh in enumerate(behs):
        rvc = 1 + (i % 4)
        set_map(i // 12)
        kind = "cubic" if (i // 4) % 3 != 2 else "trans"
        evs = replay_behaviour(Fn, beh, kind, rvc, tmpdir, i)
        tr = {"id": f"beh{i}_{kind}_rvc{rvc}_map{(i // 12) % len(MAPS)}", "ev": evs,
              "cell": {"rvc": rvc, "kind": kind, "map": (i // 12) % len(MAPS)}, "behaviour": beh}
        # structural key for findings: first event whose outcome is an unexpected exception class
        for ev in evs:
            if ev.get("out") not in (None, "ok", "ValueError"):
                tr["cell"].update(firstExc=ev["out"], firstExcOp=ev["e"])
                break
        traces.append(tr)
        chk.count(json.dumps(beh, sort_keys=True) + f"|{kind}|{rvc}")
    if traces:
        chk.sample({"id": traces[0]["id"], "behaviour": traces[0]["behaviour"], "events": traces[0]["ev"][:4]})
        chk.sample({"id": traces[-1]["id"], "behaviour": traces[-1]["behaviour"]})
    # behaviours of the model that exposed a defect under another seed (a088852): an adaptive update fired by the lower,
    # directly evaluated side in the middle of a call whose other points lie above the table -- kept in both tiers
    for j, (beh, kind, rvc) in enumerate(REGRESSION):
        set_map(0)
        evs = replay_behaviour(Fn, beh, kind, rvc, tmpdir, 100000 + j)
        traces.append({"id": f"regress{j}_{kind}_rvc{rvc}_map0", "ev": evs, "cell": {"rvc": rvc, "kind": kind, "map": 0}, "behaviour": beh})
    traces += endnan_traces(tier)
    vr = tlc.validate("TraceInterpFn.tla", "TraceInterpFn.cfg", traces)
    chk.add_validation(vr, traces)
    ops = {}
    for tr in traces:
        for ev in tr["ev"]:
            ops[ev["e"]] = ops.get(ev["e"], 0) + 1
    chk.extra.update(ops_replayed=ops, behaviours=len(traces), depth=depth,
                     checker_cmd="tlc InterpFn.tla (exhaustive) ; tlc -simulate SimInterpFn.tla ; tlc TraceInterpFn.tla (batched traces)")
    chk.rule = ("behaviours generated by TLC simulation of SimInterpFn.tla (initial states: 16 mode pairs x adaptive on/off; operation "
                "alphabet NewTable/Eval/Deriv/Extend/SetModes/Enable/Disable/WriteRead, depth 12) replayed on real subclasses; "
                "distinct = distinct (behaviour, test function, return-value count)")
    chk.assumptions += ["reference spline for rule identification: scipy CubicSpline rebuilt from the object's own table",
                        "outside the model: degenerate adaptive update with coincident points, direct finite-difference derivatives while adaptive is on"]


def replay(chk, path):
    with open(path) as f:
        tr = json.load(f)
    Fn = make_class()
    if tr.get("cell", {}).get("kind") == "endnan":
        new = [t for t in endnan_traces("thorough") if t["id"] == tr["id"]]
        tr = new[0] if new else tr
        for ev in tr["ev"]:
            print(json.dumps(ev)[:400])
    elif "behaviour" in tr:
        kind, rvc = tr["cell"]["kind"], tr["cell"]["rvc"]
        set_map(tr["cell"].get("map", 0))
        evs = replay_behaviour(Fn, tr["behaviour"], kind, rvc, tlc.scratch(), 0)
        tr = dict(tr, ev=evs)
        for ev in evs:
            print(json.dumps(ev)[:400])
    vr = tlc.validate("TraceInterpFn.tla", "TraceInterpFn.cfg", [tr])
    chk.add_validation(vr, [tr])
    return chk.finish()
