"""WallGoManager.setupWallSolver / solveWall / solveWallDetonation against SolverBuild.tla / TraceSolverBuild.tla.

One worker = one real manager (model with one out-of-equilibrium particle, set-up done once) on which many histories
are executed: configuration keys are changed (by attribute or by loading a real .ini file), the collision directory is
switched between one with files and an empty one, and solvers are built through the three public entry points.  The
two search routines of the EOM are replaced by recorders for the duration (no wall is solved here; that is C01's main
part) so that what they are handed can be observed.  Every attribute of the built objects is reported as the set of
(key, tag) pairs of the menus below whose concrete value it equals -- the harness does not know which key an attribute
is supposed to come from; SolverBuild.tla does.  Lengths in ticks of 1e-3 / Tn, velocities in ticks of 1e-6.
"""
import logging
import os
import pathlib
import tempfile
import warnings

import numpy as np

from .. import models, pipeline, tlc

# (section, ini key, type, a, b); "d" is whatever a fresh Config holds.  Values are distinct across keys of a type.
MENU = [("Grid", "spatialGridSize", "int", 24, 30), ("Grid", "momentumGridSize", "int", 7, 8),          # b even (EvenTags)
        ("Grid", "ratioPointsWall", "float", 0.4, 0.25), ("Grid", "smoothing", "float", 0.2, 0.45),
        ("EquationOfMotion", "errTol", "float", 2e-4, 5e-3), ("EquationOfMotion", "pressRelErrTol", "float", 0.03, 0.27),
        ("EquationOfMotion", "maxIterations", "int", 9, 13), ("EquationOfMotion", "conserveEnergyMomentum", "bool", True, False),
        ("EquationOfMotion", "wallThicknessLowerBound", "float", 0.15, 0.35), ("EquationOfMotion", "wallThicknessUpperBound", "float", 55.0, 70.0),
        ("EquationOfMotion", "wallOffsetLowerBound", "float", -3.5, -2.25), ("EquationOfMotion", "wallOffsetUpperBound", "float", 3.75, 2.75),
        ("EquationOfMotion", "vwMaxDeton", "float", 0.95, 0.3), ("EquationOfMotion", "nbrPointsMinDeton", "int", 6, 4),
        ("EquationOfMotion", "nbrPointsMaxDeton", "int", 17, 26), ("EquationOfMotion", "overshootProbDeton", "float", 0.12, 0.22),
        ("BoltzmannSolver", "collisionMultiplier", "float", 0.6, 1.7)]
SETTINGS_MFP = [50.0, 100.0, 3.0, 0.75]
SETTINGS_L = [5.0, 2.5, 12.0, 20.0]
NAME = {f"{s}.{k}": (s, k, t, a, b) for (s, k, t, a, b) in MENU}


def _get(cfg, sec, key):
    obj = {"Grid": cfg.configGrid, "EquationOfMotion": cfg.configEOM, "BoltzmannSolver": cfg.configBoltzmannSolver}[sec]
    if key.startswith("wallThickness") or key.startswith("wallOffset"):
        lst = obj.wallThicknessBounds if key.startswith("wallThickness") else obj.wallOffsetBounds
        return lst[0] if "Lower" in key else lst[1]
    return getattr(obj, key)


def _set(cfg, sec, key, value):
    obj = {"Grid": cfg.configGrid, "EquationOfMotion": cfg.configEOM, "BoltzmannSolver": cfg.configBoltzmannSolver}[sec]
    if key.startswith("wallThickness") or key.startswith("wallOffset"):
        lst = obj.wallThicknessBounds if key.startswith("wallThickness") else obj.wallOffsetBounds
        lst[0 if "Lower" in key else 1] = value
    else:
        setattr(obj, key, value)


def _same(x, y):
    if isinstance(x, (bool, np.bool_)) or isinstance(y, (bool, np.bool_)):
        return isinstance(x, (bool, np.bool_)) and isinstance(y, (bool, np.bool_)) and bool(x) == bool(y)
    try:
        return float(x) == float(y)
    except (TypeError, ValueError):
        return False


def worker(job):
    import WallGo
    from WallGo import equationOfMotion as EQ

    warnings.filterwarnings("ignore")
    rng = np.random.default_rng(job["seed"])
    m = models.pipeline_model(job["model"], u=job["u"])
    tmp = tempfile.mkdtemp(prefix="sb.", dir=tlc.scratch())
    good, empty = pathlib.Path(tmp) / "coll", pathlib.Path(tmp) / "empty"
    os.makedirs(empty)
    pipeline.write_collisions(good, ["top"], 11, seed=job["seed"])
    defaults = {n: _get(WallGo.Config(), s, k) for n, (s, k, _t, _a, _b) in NAME.items()}
    concrete = {n: {"d": defaults[n], "a": a, "b": b} for n, (_s, _k, _t, a, b) in NAME.items()}

    def matches(value):
        return [[n, t] for n in NAME for t in ("d", "a", "b") if _same(value, concrete[n][t])]

    def tag_of(n, value):
        ts = [t for t in ("d", "a", "b") if _same(value, concrete[n][t])]
        if NAME[n][2] == "bool":                      # True is both the default and "a": call it "a" like ConfigLoad does
            ts = [t for t in ts if t != "d"] or ts
        return ts[0] if ts else "?"

    tkm = {"Grid.ratioPointsWall": {t: int(round(concrete["Grid.ratioPointsWall"][t] * 1000)) for t in "dab"},
           "Grid.smoothing": {t: int(round(concrete["Grid.smoothing"][t] * 1000)) for t in "dab"},
           "EquationOfMotion.vwMaxDeton": {t: int(round(concrete["EquationOfMotion.vwMaxDeton"][t] * 1e6)) for t in "dab"}}
    traces = []
    # managers that are not ready: nothing registered / model registered but no set-up
    for kind in ("bare", "registered"):
        man = WallGo.WallGoManager()
        man.setVerbosity(logging.ERROR)
        if kind == "registered":
            man.registerModel(pipeline.make_wallgo_model(m, 1))
        evs = [{"e": "Begin", "cfg": {n: tag_of(n, _get(man.config, *NAME[n][:2])) for n in NAME}, "dir": "good", "ready": False, "tk": tkm, "vJ": 0, "slow": 0}]
        for call in ("Build", "Solve", "Deton"):
            st = WallGo.WallSolverSettings(bIncludeOffEquilibrium=False, meanFreePathScale=50.0, wallThicknessGuess=5.0)
            try:
                {"Build": man.setupWallSolver, "Solve": man.solveWall, "Deton": man.solveWallDetonation}[call](st)
                out = "ok"
            except Exception as ex:                    # pylint: disable=broad-except
                out = type(ex).__name__
            ev = {"e": call, "incl": False, "mfp": 50000, "L": 5000, "out": out, "called": False}
            if call == "Deton":
                ev["only"] = True
            evs.append(ev)
        traces.append({"id": f"sb_{job['model']}_u{job['u']}_{kind}", "ev": evs, "cell": {"kind": "solverbuild", "manager": kind}})

    man, Tn = pipeline.build_manager(m, job["tn"], M=40, N=11, nparticles=1, collision_dir=good)
    nparts = len(man.model.outOfEquilibriumParticles)
    vJ, slow = man.hydrodynamics.vJ, man.hydrodynamics.slowestDeton()
    cur = ["good"]
    keep = []                                          # every object ever handed out stays alive: identities are not reused
    seen = set()
    rec = {}
    o_defl, o_det = EQ.EOM.findWallVelocityDeflagrationHybrid, EQ.EOM.findWallVelocityDetonation
    SENT = object()

    def r_defl(self, wallThicknessIni=None):
        rec.update(eom=self, argL=wallThicknessIni)
        return SENT

    def r_det(self, vmin, vmax, wallThicknessIni, nbrPointsMin, nbrPointsMax, overshootProb, rtol, onlySmallest=True):
        rec.update(eom=self, argL=wallThicknessIni, vmin=vmin, args=dict(vmax=vmax, nMin=nbrPointsMin, nMax=nbrPointsMax, overshoot=overshootProb, rtol=rtol), only=onlySmallest)
        return SENT

    def observe(eom, grid=None, bz=None, initL=None):
        grid = eom.grid if grid is None else grid
        bz = eom.boltzmannSolver if bz is None else bz
        objs = [eom, eom.grid, eom.boltzmannSolver, grid, bz]
        fresh = not any(id(o) in seen for o in objs)
        for o in objs:
            seen.add(id(o))
            keep.append(o)
        sinks = dict(gridM=grid.M, gridN=grid.N, gridRatio=grid.ratioPointsWall, gridSmooth=grid.smoothing, errTol=eom.errTol, pressRel=eom.pressRelErrTol,
                     maxIt=eom.maxIterations, conserve=eom.forceEnergyConservation, thickLo=eom.wallThicknessBounds[0], thickHi=eom.wallThicknessBounds[1],
                     offLo=eom.wallOffsetBounds[0], offHi=eom.wallOffsetBounds[1], collMult=bz.collisionMultiplier)
        tk3 = lambda x: int(round(float(x) * 1000))
        return dict(sinks={k: matches(v) for k, v in sinks.items()}, tailIn=tk3(grid.tailLengthInside * Tn), tailOut=tk3(grid.tailLengthOutside * Tn),
                    gridL=tk3(grid.wallThickness * Tn), eomMfp=tk3(eom.meanFreePathScale * Tn), initL=tk3((eom_initL(eom) if initL is None else initL) * Tn),
                    momT=tk3(grid.momentumFalloffT / Tn), shared=bool(eom.grid is grid and bz.grid is grid and eom.boltzmannSolver is bz),
                    thermoSame=bool(eom.thermo is man.thermodynamics), hydroSame=bool(eom.hydrodynamics is man.hydrodynamics), fresh=bool(fresh),
                    nFieldsOK=bool(eom.nbrFields == m.nf), partsOK=bool(len(bz.offEqParticles) == nparts and len(eom.particles) == nparts),
                    inclFlag=bool(eom.includeOffEq), collLoaded=bool(bz.collisionArray is not None), basisM=str(bz.basisM), basisN=str(bz.basisN))

    def eom_initL(_eom):
        return rec.get("argL", 0.0)

    EQ.EOM.findWallVelocityDeflagrationHybrid, EQ.EOM.findWallVelocityDetonation = r_defl, r_det
    try:
        for q in range(job["n"]):
            evs = [{"e": "Begin", "cfg": {n: tag_of(n, _get(man.config, *NAME[n][:2])) for n in NAME}, "dir": cur[0], "ready": True, "tk": tkm,
                    "vJ": int(round(vJ * 1e6)), "slow": int(round(slow * 1e6))}]
            for step in range(int(rng.integers(4, 11))):
                r = rng.random()
                if r < 0.45:
                    n = str(rng.choice(list(NAME)))
                    t = str(rng.choice(["d", "a", "b"], p=[0.3, 0.4, 0.3] if n != "Grid.momentumGridSize" else [0.4, 0.45, 0.15]))
                    if NAME[n][2] == "bool" and t == "d":
                        t = "a"
                    sec, key, ty = NAME[n][:3]
                    val = concrete[n][t]
                    how = "file" if rng.random() < 0.4 else "attr"
                    out = "ok"
                    if how == "file":
                        path = os.path.join(tmp, f"k{q}_{step}.ini")
                        with open(path, "w") as fh:
                            fh.write(f"[{sec}]\n{key} = {repr(val) if ty != 'bool' else ('true' if val else 'false')}\n")
                        try:
                            man.config.loadConfigFromFile(path)
                        except Exception as ex:        # pylint: disable=broad-except
                            out = type(ex).__name__
                        os.remove(path)
                    else:
                        _set(man.config, sec, key, val)
                    evs.append({"e": "Set", "k": n, "v": tag_of(n, _get(man.config, sec, key)), "asked": t, "how": how, "out": out})
                elif r < 0.55:
                    d = str(rng.choice(["good", "missing"]))
                    man.setPathToCollisionData(good if d == "good" else empty)
                    cur[0] = d
                    evs.append({"e": "Dir", "d": d})
                else:
                    call = str(rng.choice(["Build", "Solve", "Deton"], p=[0.4, 0.25, 0.35]))
                    incl = bool(rng.random() < 0.5)
                    mfp, L = float(rng.choice(SETTINGS_MFP)), float(rng.choice(SETTINGS_L))
                    st = WallGo.WallSolverSettings(bIncludeOffEquilibrium=incl, meanFreePathScale=mfp, wallThicknessGuess=L)
                    ev = {"e": call, "incl": incl, "mfp": int(round(mfp * 1000)), "L": int(round(L * 1000))}
                    rec.clear()
                    only = bool(rng.random() < 0.5)
                    try:
                        if call == "Build":
                            sv = man.setupWallSolver(st)
                            ev.update(out="ok", **observe(sv.eom, sv.grid, sv.boltzmannSolver, sv.initialWallThickness))
                        elif call == "Solve":
                            ret = man.solveWall(st)
                            ev.update(out="ok", called="eom" in rec, returned=bool(ret is SENT))
                        else:
                            ev["only"] = only
                            ret = man.solveWallDetonation(st, onlySmallest=only)
                            ev.update(out="ok", called="eom" in rec, returned=bool(ret is SENT))
                    except Exception as ex:            # pylint: disable=broad-except
                        ev.update(out=type(ex).__name__, called="eom" in rec)
                        if call == "Deton":
                            ev["only"] = only
                    if ev["out"] == "ok" and call != "Build" and "eom" in rec:
                        ev.update(observe(rec["eom"]), argL=int(round(rec["argL"] * Tn * 1000)))
                        if call == "Deton":
                            ev.update(vminArg=int(round(rec["vmin"] * 1e6)), onlyArg=bool(rec["only"]), args={k: matches(v) for k, v in rec["args"].items()})
                    evs.append(ev)
            traces.append({"id": f"sb_{job['model']}_u{job['u']}_s{job['seed']}_{q}", "ev": evs, "cell": {"kind": "solverbuild", "job": job, "q": q}})
    finally:
        EQ.EOM.findWallVelocityDeflagrationHybrid, EQ.EOM.findWallVelocityDetonation = o_defl, o_det
    return traces


def jobs(tier, seed):
    base = [dict(model="one", u=1.0, tn=2.1), dict(model="one", u=0.01, tn=2.1), dict(model="two", u=1.0, tn=0.92), dict(model="one", u=100.0, tn=2.12)]
    n = 30 if tier == "quick" else 250
    use = base[:2] if tier == "quick" else base
    return [dict(j, seed=seed * 1000 + i, n=n) for i, j in enumerate(use)]
