"""C19 -- finite-difference derivatives are exact on low-degree polynomials.

1. export the coefficient/position tables of the working tree's WallGo.helpers as
   integers (FD_TABLES json) and let TLC check FiniteDiff.tla exhaustively (every
   table row, every position of x relative to the bounds on the half-step lattice);
2. dump TLC's state graph: every state is one (acc, n, x, lo, hi) case; replay all of
   them into the real `derivative` (grouped into array calls, so per-element stencil
   selection is exercised) with dyadic x/dx over ten decades and integer polynomials;
3. gradient / hessian: axis selections x input ranks x accuracy orders;
4. the recorded calls are validated by TLC against TraceFiniteDiff.tla.
"""
import json
import math
import os
import random
import re

import numpy as np

from .. import quant, tlc

LEVEL = "model_checking"
NONE = -1000
DEN = 48


def export_tables():
    from WallGo import helpers as H

    integral = True

    def rows(a, den=1):
        nonlocal integral
        a = np.asarray(a, dtype=float) * den
        r = np.rint(a)
        if not np.all(np.abs(a - r) < 1e-9):
            integral = False
        return r.astype(int).tolist()

    t = {"den": DEN, "first": {}, "second": {}, "hess": {}}
    for o in ("2", "4"):
        t["first"]["o" + o] = {"pos": rows(H.FIRST_DERIV_POS[o]), "num": rows(H.FIRST_DERIV_COEFF[o], DEN)}
        t["second"]["o" + o] = {"pos": rows(H.SECOND_DERIV_POS[o]), "num": rows(H.SECOND_DERIV_COEFF[o], DEN)}
        t["hess"]["o" + o] = {"px": rows(H.HESSIAN_POS[o][0]), "py": rows(H.HESSIAN_POS[o][1]),
                              "num": rows(H.HESSIAN_COEFF[o], DEN)}
    t["integral"] = integral
    path = os.path.join(tlc.scratch(), "fd_tables.json")
    with open(path, "w") as f:
        json.dump(t, f)
    return path, t


_RE_CALL = re.compile(r"acc \|-> (\d+).*?n \|-> (\d+).*?x \|-> (-?\d+).*?lo \|-> (-?\d+).*?hi \|-> (-?\d+)")


def parse_states(dump):
    cases = set()
    for m in re.finditer(r"call = \[([^\]]*(?:\[[^\]]*\][^\]]*)*)\]", dump):
        pass
    # records print fields in alphabetical-ish order; fetch by name
    for blk in dump.split("State ")[1:]:
        if "active |-> FALSE" in blk:
            continue
        g = {}
        for name in ("acc", "n", "x", "lo", "hi"):
            mm = re.search(r"\b" + name + r" \|-> (-?\d+)", blk)
            g[name] = int(mm.group(1))
        cases.add((g["acc"], g["n"], g["lo"], g["hi"], g["x"]))
    return sorted(cases)


class PolyF:
    """integer-coefficient polynomial in u = (y - x0) / s (s a power of two), records calls"""

    def __init__(self, coef, x0, s, extra=()):
        self.c, self.x0, self.s, self.extra = [int(a) for a in coef], x0, s, extra
        self.calls = []

    def val(self, y, k=0):
        u = (np.asarray(y, dtype=float) - self.x0) / self.s
        c = np.polynomial.polynomial.polyder(np.array(self.c, dtype=float), k) if k else np.array(self.c, dtype=float)
        if c.size == 0:
            c = np.zeros(1)
        return np.polynomial.polynomial.polyval(u, c) / self.s**k

    def __call__(self, y, *a):
        y = np.asarray(y)
        self.calls.append(y.copy())
        v = self.val(y)
        for i, _ in enumerate(self.extra):
            v = np.stack([v * (j + 1) for j in range(self.extra[i])], axis=-1)
        return v


def deriv_event(H, rng, acc, n, lo, hi, xs, shape, hexp, extra=()):
    """one call of helpers.derivative on lattice positions xs (ints) reshaped to `shape`"""
    h = 2.0 ** (-hexp)
    x0 = rng.choice([0.0, 1.0, -3.5, 12.25])
    npts = len(H.FIRST_DERIV_POS[str(acc)][0]) if n == 1 else len(H.SECOND_DERIV_POS[str(acc)][0])
    deg = rng.choice([npts - 1, npts - 1, max(n, npts - 2)])
    coef = [rng.randint(-9, 9) for _ in range(deg + 1)]
    if coef[-1] == 0:
        coef[-1] = 3
    # polynomial in lattice units (u = (y - x0)/(h/2)... keep u in steps of dx so values stay moderate
    f = PolyF(coef, x0 + 13 * h, h * 4, extra)
    X = x0 + np.array(xs, dtype=float) * (h / 2)
    xin = X.reshape(shape) if shape != () else float(X[0])
    blo = None if lo == NONE else x0 + lo * h / 2
    bhi = None if hi == NONE else x0 + hi * h / 2
    bounds = None if (blo is None and bhi is None) else (-np.inf if blo is None else blo, np.inf if bhi is None else bhi)
    res = np.asarray(H.derivative(f, xin, n=n, order=acc, bounds=bounds, dx=h))
    ev = {"e": "Deriv", "acc": acc, "n": n, "lo": lo, "hi": hi, "deg": deg, "hexp": hexp,
          "shapeX": list(np.shape(xin)), "extra": list(extra), "shapeOut": list(res.shape)}
    pos = f.calls[0]
    ev["samecalls"] = bool(all(c.shape == pos.shape and np.array_equal(c, pos) for c in f.calls))
    P = pos.reshape(pos.shape[0], -1)
    els = []
    oob = 0
    for i, xk in enumerate(xs):
        o = (P[:, i] - X[i]) / h
        r = np.rint(o)
        els.append({"x": int(xk), "offs": r.astype(int).tolist(), "grid": bool(np.all(o == r))})
        if blo is not None:
            oob += int(np.sum(P[:, i] < blo))
        if bhi is not None:
            oob += int(np.sum(P[:, i] > bhi))
    ev["els"] = els
    ev["oob"] = oob
    exact = f.val(X, n).reshape(np.shape(xin))
    for i, _ in enumerate(extra):
        exact = np.stack([exact * (j + 1) for j in range(extra[i])], axis=-1)
    # conditioning scale: sum |c_j f_j| / h^n using the actually evaluated points
    tab = (H.FIRST_DERIV_COEFF if n == 1 else H.SECOND_DERIV_COEFF)[str(acc)]
    cmax = float(np.max(np.abs(tab)))
    scale = cmax * len(tab[0]) * float(np.max(np.abs(f.val(pos)))) * (max(extra) if extra else 1) / h**n
    err = float(np.max(np.abs(res - exact))) if res.shape == exact.shape else np.inf
    ev["d"] = quant.digits(err / max(scale, 1e-300))
    return ev


def mpoly(rng, nv, deg):
    """random integer multivariate polynomial of total degree <= deg: list of (coef, exps)"""
    terms = []
    for _ in range(6):
        ex = [0] * nv
        for _ in range(rng.randint(0, deg)):
            ex[rng.randrange(nv)] += 1
        terms.append((rng.randint(-7, 7) or 2, tuple(ex)))
    return terms


class MPolyF:
    def __init__(self, terms, x0, s):
        self.t, self.x0, self.s = terms, np.asarray(x0, float), np.asarray(s, float)
        self.calls = []

    def val(self, y, d=()):
        """value of the partial derivative d (tuple of variable indices) at y[..., nv]"""
        u = (np.asarray(y, float) - self.x0) / self.s
        out = np.zeros(u.shape[:-1])
        for c, ex in self.t:
            ex = list(ex)
            cc = float(c)
            for k in d:
                cc *= ex[k]
                ex[k] -= 1
                if ex[k] < 0:
                    cc = 0.0
                    break
                cc /= self.s[k]
            if cc == 0.0:
                continue
            term = cc * np.ones(u.shape[:-1])
            for k, e in enumerate(ex):
                term = term * u[..., k] ** e
            out = out + term
        return out

    def __call__(self, y, *a):
        self.calls.append(np.array(y, copy=True))
        return self.val(y)


def grad_hess_events(H, rng, tier):
    evs = []
    shapes = [(), (3,), (2, 3)]
    nvs = [1, 2, 3]
    for acc in (2, 4):
        for nv in nvs:
            axsel = [None, 0, -1, list(range(nv))[::-1], [0]]
            if nv >= 2:
                axsel += [[-nv, nv - 1], [1, 1]]
            for lead in shapes:
                for hexp in ([4, 20] if tier == "quick" else [2, 7, 12, 17, 22, 27, 32]):
                    for axis in axsel:
                        h = 2.0 ** (-hexp) * np.array([1.0, 2.0, 0.5][:nv])
                        x0 = np.array([1.0, -2.5, 0.75][:nv])
                        X = x0 + np.array([[rng.randint(-4, 4) for _ in range(nv)] for _ in range(int(np.prod(lead)) or 1)]) * h
                        X = X.reshape(lead + (nv,))
                        # gradient
                        npts = len(H.FIRST_DERIV_POS[str(acc)][0])
                        deg = npts - 1
                        f = MPolyF(mpoly(rng, nv, deg), x0, 4 * h)
                        dxarg = h if nv > 1 or rng.random() < 0.5 else float(h[0])
                        res = np.asarray(H.gradient(f, X, order=acc, dx=dxarg, axis=axis))
                        axl = list(range(nv)) if axis is None else ([axis] if isinstance(axis, int) else list(axis))
                        P = f.calls[0].reshape(-1, nv)
                        first = X.reshape(-1, nv)[0]
                        # points belonging to the first x element: those within 5 steps (others are >= far? no: use structure)
                        shp = (len(H.FIRST_DERIV_POS[str(acc)][0]), len(axl)) if lead == () else None
                        offs = (f.calls[0].reshape((-1,) + X.shape[:-1] + (npts, len(axl), nv)) if False else None)
                        full = f.calls[0].reshape(X.shape[:-1] + (npts, len(axl), nv))
                        o = (full.reshape((-1, npts, len(axl), nv))[0] - first) / h
                        r = np.rint(o)
                        exact = np.stack([f.val(X, (a % nv,)) for a in axl], axis=-1)
                        scale = 8 * float(np.max(np.abs(f.val(f.calls[0])))) / float(np.min(h)) * npts
                        err = float(np.max(np.abs(res - exact))) if res.shape == exact.shape else np.inf
                        evs.append({"e": "Grad", "acc": acc, "nv": nv, "axes": axl, "shapeX": list(X.shape),
                                    "shapeOut": list(res.shape), "pts": sorted(set(map(tuple, r.reshape(-1, nv).astype(int).tolist()))),
                                    "grid": bool(np.all(o == r)), "deg": deg, "d": quant.digits(err / max(scale, 1e-300)), "hexp": hexp})
                        # hessian
                        ya = axsel[(axsel.index(axis) + 1) % len(axsel)]
                        degh = 3 if acc == 2 else 5
                        f = MPolyF(mpoly(rng, nv, degh), x0, 4 * h)
                        res = np.asarray(H.hessian(f, X, order=acc, dx=dxarg, xAxis=axis, yAxis=ya))
                        yl = list(range(nv)) if ya is None else ([ya] if isinstance(ya, int) else list(ya))
                        nh = len(H.HESSIAN_COEFF[str(acc)])
                        full = f.calls[0].reshape(X.shape[:-1] + (nh, len(axl), len(yl), nv))
                        o = (full.reshape((-1, nh, len(axl), len(yl), nv))[0] - first) / h
                        r = np.rint(o)
                        exact = np.stack([np.stack([f.val(X, (a % nv, b % nv)) for b in yl], axis=-1) for a in axl], axis=-2)
                        scale = float(np.max(np.abs(f.val(f.calls[0])))) / float(np.min(h)) ** 2 * nh
                        err = float(np.max(np.abs(res - exact))) if res.shape == exact.shape else np.inf
                        evs.append({"e": "Hess", "acc": acc, "nv": nv, "xa": axl, "ya": yl, "shapeX": list(X.shape),
                                    "shapeOut": list(res.shape), "pts": sorted(set(map(tuple, r.reshape(-1, nv).astype(int).tolist()))),
                                    "grid": bool(np.all(o == r)), "deg": degh, "d": quant.digits(err / max(scale, 1e-300)), "hexp": hexp})
    return evs


def reject_events(H, rng):
    evs = []
    for lo, hi, x in [(4, 20, 2), (4, 20, 22), (NONE, 10, 11), (6, NONE, 5)]:
        f = PolyF([1, 2, 3], 0.0, 1.0)
        b = (-np.inf if lo == NONE else lo * 0.5, np.inf if hi == NONE else hi * 0.5)
        raised = False
        try:
            H.derivative(f, x * 0.5, n=1, order=4, bounds=b, dx=1.0)
        except AssertionError:
            raised = True
        evs.append({"e": "Reject", "lo": lo, "hi": hi, "x": x, "raised": raised, "nevals": len(f.calls)})
    return evs


def scan_events(H, tier, seed):
    """NON-dyadic steps and positions exactly k steps from a bound: rounding in x +- k*dx must not push an evaluation
    outside the bounds (not even by an ulp), and the result stays the derivative of a cubic"""
    rng = np.random.default_rng(seed)
    evs = []
    dxs = [0.1, 0.3, 1e-3, 7e-5, 3.3, 1e-7] if tier == "quick" else [0.1, 0.3, 0.7, 1e-2, 1e-3, 7e-5, 1e-5, 3.3, 47.0, 1e-7]
    bnds = [0.0, 0.37, -2.1, 1000.7] if tier == "quick" else [0.0, 0.37, -2.1, 1000.7, 1e-3, -1e5 + 0.3, 12345.678]
    for acc in (2, 4):
        for n in (1, 2):
            cases = oob = bad = 0
            worst = 16
            for dx in dxs:
                for b in bnds:
                    for side in ("lower", "upper"):
                        for k in range(0, 5):
                            for rep in range(1 if tier == "quick" else 3):
                                bb = b * (1 + (rep and rng.uniform(-0.3, 0.3)))
                                x = bb + k * dx if side == "lower" else bb - k * dx
                                bounds = (bb, np.inf) if side == "lower" else (-np.inf, bb)
                                if not (bounds[0] <= x <= bounds[1]):
                                    continue
                                c = rng.normal(size=4)
                                # the exactness class of the row that applies here: (#points - 1), found with a probe call
                                probe = []
                                try:
                                    H.derivative(lambda t: (probe.append(np.ravel(np.asarray(t, float))), np.zeros_like(np.asarray(t, float)))[1], x, n=n, order=acc, bounds=bounds, dx=dx)
                                except Exception:
                                    pass
                                npts = len(np.unique(np.concatenate(probe))) if probe else 2
                                c[min(npts, 4):] = 0.0
                                x0 = x
                                calls = []

                                def f(t, c=c, x0=x0, calls=calls):
                                    t = np.asarray(t, float)
                                    calls.append(t.copy())
                                    u = (t - x0) / dx
                                    return c[0] + c[1] * u + c[2] * u * u + c[3] * u**3

                                try:
                                    r = float(np.asarray(H.derivative(f, x, n=n, order=acc, bounds=bounds, dx=dx)).ravel()[0])
                                except Exception:
                                    r = float("nan")
                                allp = np.concatenate([np.ravel(t) for t in calls]) if calls else np.array([x])
                                cases += 1
                                oob += int(np.sum((allp < bounds[0]) | (allp > bounds[1])))
                                exact = c[1] / dx if n == 1 else 2 * c[2] / dx**2
                                if not np.isfinite(r):
                                    bad += 1
                                else:
                                    # conditioning: values of size ~|c| at points whose spacing is known to ~eps*|x|/dx
                                    cond = (np.sum(np.abs(c)) * 30 / dx**n) * max(1.0, abs(x) / dx * 1e-3)
                                    worst = min(worst, quant.digits(abs(r - exact) / cond))
            evs.append({"e": "Scan", "acc": acc, "n": n, "cases": cases, "oob": oob, "nonfinite": bad, "d": worst})
    return evs


def derivT_events(tier, seed):
    """EffectivePotential.derivT: the temperature derivative is bounded below by T = 0 (one-sided stencils next to it)"""
    import WallGo

    rng = np.random.default_rng(seed + 5)
    evs = []
    for scale, err in ((1.0, 1e-10), (50.0, 1e-15), (0.01, 1e-8)):
        a = rng.normal(size=5)
        a[4] = 0.0                  # the rows next to a bound have four points: exact on cubics in T
        seen = []

        class Pot(WallGo.EffectivePotential):
            fieldCount = 1
            effectivePotentialError = err

            def evaluate(self, fields, temperature):
                T = np.asarray(temperature, float)
                seen.append(float(np.min(T)))
                u = T / scale
                phi = np.asarray(WallGo.Fields(fields).getField(0), float)
                return (a[0] + a[1] * u + a[2] * u**2 + a[3] * u**3 + a[4] * u**4) * (1.0 + phi**2)

        pot = Pot()
        pot.configureDerivatives(WallGo.VeffDerivativeSettings(temperatureVariationScale=scale, fieldValueVariationScale=[1.0]))
        dT = scale * err ** (1 / 5)
        worst, neg = 16, False
        Ts = [0.0, 0.3 * dT, dT, 1.7 * dT, 2.0 * dT, 2.5 * dT, 10 * dT, 1000 * dT]
        for T in Ts + [np.array(Ts)]:
            seen.clear()
            got = np.asarray(pot.derivT(WallGo.Fields((0.5,)), T), float).ravel()
            Tv = np.atleast_1d(np.asarray(T, float))
            u = Tv / scale
            exact = (a[1] + 2 * a[2] * u + 3 * a[3] * u**2 + 4 * a[4] * u**3) / scale * 1.25
            neg = neg or (min(seen) < 0.0)
            worst = min(worst, quant.digits(np.max(np.abs(got - exact)) / (np.sum(np.abs(a)) * 1.25 * (1 + np.max(u)) ** 4 / dT)) if got.shape == exact.shape else -1)
        evs.append({"e": "DerivT", "scaleExp": int(round(math.log10(scale))), "negT": bool(neg), "d": worst, "n": len(Ts) + 1})
    return evs


def build_traces(tier, seed, cases):
    from WallGo import helpers as H

    rng = random.Random(seed)
    groups = {}
    for acc, n, lo, hi, x in cases:
        groups.setdefault((acc, n, lo, hi), []).append(x)
    keys = sorted(groups)
    traces = []
    hexps = [3, 13, 23, 33] if tier == "quick" else list(range(3, 37, 3))
    for gi, key in enumerate(keys):
        acc, n, lo, hi = key
        xs = groups[key]
        evs = []
        hexp = hexps[gi % len(hexps)]
        # one array call with every lattice position of this (acc, n, lo, hi) cell
        evs.append(deriv_event(H, rng, acc, n, lo, hi, xs, (len(xs),), hexp))
        if tier == "thorough" or gi % 7 == 0:
            k = (len(xs) // 2) * 2
            if k >= 2:
                evs.append(deriv_event(H, rng, acc, n, lo, hi, xs[:k], (2, k // 2), hexps[(gi + 1) % len(hexps)], extra=(3,)))
            evs.append(deriv_event(H, rng, acc, n, lo, hi, [xs[gi % len(xs)]], (), hexps[(gi + 2) % len(hexps)]))
        traces.append({"id": f"deriv_acc{acc}_n{n}_lo{lo}_hi{hi}", "ev": evs,
                       "cell": {"kind": "deriv", "acc": acc, "n": n, "lo": lo, "hi": hi}})
    gh = grad_hess_events(H, rng, tier)
    for i in range(0, len(gh), 8):
        traces.append({"id": f"gradhess_{i // 8}", "ev": gh[i:i + 8], "cell": {"kind": "gradhess"}})
    traces.append({"id": "reject", "ev": reject_events(H, rng), "cell": {"kind": "reject"}})
    traces.append({"id": "scan_nondyadic", "ev": scan_events(H, tier, seed), "cell": {"kind": "scan"}})
    traces.append({"id": "derivT_near_zero", "ev": derivT_events(tier, seed), "cell": {"kind": "derivT"}})
    return traces


def run(chk, tier, seed):
    path, t = export_tables()
    env = {"FD_TABLES": path}
    res = tlc.run_model("FiniteDiff.tla", "FiniteDiff.cfg", extra_env=env, dump=True, coverage=(tier == "thorough"))
    chk.add_model(res, label="exhaustive: all (acc,n,x,lo,hi) on the half-step lattice, tables from WallGo.helpers")
    cases = parse_states(res["dump"])
    traces = build_traces(tier, seed, cases)
    for tr in traces:
        for ev in tr["ev"]:
            chk.count((tr["id"], ev["e"], ev.get("hexp"), str(ev.get("shapeX"))), nontrivial=True)
    chk.sample(traces[len(traces) // 3])
    chk.sample(traces[-2])
    vr = tlc.validate("TraceFiniteDiff.tla", "TraceFiniteDiff.cfg", traces, extra_env=env)
    chk.add_validation(vr, traces)
    chk.rule = ("cases = every reachable state of FiniteDiff.tla (acc x n x position x bounds on the half-step lattice), each replayed "
                "into helpers.derivative inside an array call with dyadic x/dx (dx = 2^-k, k over ten decades) and random integer "
                "polynomials of degree <= #stencil points-1; gradient/hessian: accuracy x #variables x axis selections x input ranks; "
                "distinct = distinct (cell, event kind, step exponent, input shape)")
    chk.extra.update(lattice_cases=len(cases), exhaustive=True, tables_integral=t["integral"],
                     checker_cmd="tlc FiniteDiff.tla (FD_TABLES exported from /repo/src/WallGo/helpers.py) + TraceFiniteDiff.tla")
    chk.assumptions += ["polynomial oracle: numpy polyval/polyder on integer coefficients",
                        "narrow intervals (hi-lo < 8 dx) are outside the property's domain: stencil conformance only"]


def replay(chk, path):
    ptab, _ = export_tables()
    with open(path) as f:
        tr = json.load(f)
    vr = tlc.validate("TraceFiniteDiff.tla", "TraceFiniteDiff.cfg", [tr], extra_env={"FD_TABLES": ptab})
    print(json.dumps(tr, indent=1)[:3000])
    chk.add_validation(vr, [tr])
    return chk.finish()
