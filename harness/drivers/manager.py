"""Call histories of one WallGoManager (history clause of C01): Manager.tla / SimManager.tla / TraceManager.tla.

TLC generates histories over  Register / Setup(point, good | rejected input) / Call(lte | solve | deton | matching);
each is executed on ONE real manager; results are identified by SHA-256 over every numeric field; the results of fresh
managers (one per (point, call)) are the Ref events.  TLC accepts a history iff one function of (point, call) explains
every result in it.
"""
import hashlib
import logging
import os
import shutil
import tempfile
import warnings

import numpy as np

from .. import models, pipeline, tlc

POINTS = {"A": ("one", 2.1, 0), "B": ("one", 2.15, 0), "C": ("two", 0.92, 0), "D": ("one", 2.1, 1)}
MODEL_OF = {"A": "one", "B": "one", "C": "two", "D": "oneP"}
M, N = 20, 5


def _h(*xs):
    h = hashlib.sha256()
    for x in xs:
        if x is None or isinstance(x, (str, bool)):
            h.update(repr(x).encode())
        else:
            h.update(np.ascontiguousarray(np.asarray(x, dtype=float)).tobytes())
    return h.hexdigest()[:16]


class Session:
    """one manager, one model object per model name (as a user script would keep them)"""

    def __init__(self):
        import WallGo

        warnings.filterwarnings("ignore")
        self.WG = WallGo
        self.man = WallGo.WallGoManager()
        self.man.setVerbosity(logging.ERROR)
        c = self.man.config
        c.configGrid.spatialGridSize, c.configGrid.momentumGridSize = M, N
        c.configEOM.errTol, c.configEOM.maxIterations, c.configEOM.pressRelErrTol = 1e-3, 20, 0.1
        c.configThermodynamics.phaseTracerTol = 1e-6
        self.hm = {"one": models.pipeline_model("one"), "two": models.pipeline_model("two")}
        self.hm["oneP"] = self.hm["one"]
        self.wm = {}
        self.tmp = None
        self.point = None

    def model(self, name):
        if name not in self.wm:
            self.wm[name] = pipeline.make_wallgo_model(self.hm[name], 1 if name == "oneP" else 0)
        return self.wm[name]

    def register(self, name):
        self.man.registerModel(self.model(name))

    def setup(self, p, kind):
        WG = self.WG
        name, tn, npart = POINTS[p]
        m = self.hm[name]
        Tn = tn * pipeline.tref(m)
        hi, lo = pipeline.phases(m, Tn)
        if kind == "same":
            hi = lo
        elif kind == "order":
            hi, lo = lo, hi
        fs = m.field_scale()
        ph = WG.PhaseInfo(temperature=Tn, phaseLocation1=WG.Fields(tuple(np.ravel(hi))), phaseLocation2=WG.Fields(tuple(np.ravel(lo))))
        sc = WG.VeffDerivativeSettings(temperatureVariationScale=0.01 * pipeline.tref(m), fieldValueVariationScale=[0.3 * fs] * m.nf)
        self.man.setupThermodynamicsHydrodynamics(ph, sc)
        self.point = p
        if npart:
            if self.tmp is None:
                from pathlib import Path
                self.tmp = tempfile.mkdtemp(prefix="mgr.", dir=tlc.scratch())
                pipeline.write_collisions(self.tmp, ["top"], N, seed=3, strength=1.0)
            from pathlib import Path
            self.man.setPathToCollisionData(Path(self.tmp))
        return self.info()

    def info(self):
        hy, th = self.man.hydrodynamics, self.man.thermodynamics
        fe = [th.freeEnergyHigh, th.freeEnergyLow]
        return _h(hy.vJ, hy.vMin, hy.Tnucl, [f.minPossibleTemperature[0] for f in fe], [f.maxPossibleTemperature[0] for f in fe],
                  *[np.asarray(f._interpolationPoints) for f in fe], *[np.asarray(f._interpolationValues) for f in fe])

    def call(self, c):
        from .c01 import result_hash

        npart = POINTS[self.point][2] if self.point else 0
        st = self.WG.WallSolverSettings(bIncludeOffEquilibrium=bool(npart), meanFreePathScale=50.0, wallThicknessGuess=5.0)
        if c == "lte":
            return _h(self.man.wallSpeedLTE())
        if c == "solve":
            return result_hash(self.man.solveWall(st))[:16]
        if c == "deton":
            return _h(*[result_hash(r) for r in self.man.solveWallDetonation(st)])
        if c == "matching":
            hy = self.man.hydrodynamics
            return _h(hy.findMatching(0.5 * (hy.vMin + hy.vJ)), hy.efficiencyFactor(0.3), hy.fastestDeflag())
        raise ValueError(c)

    def close(self):
        if self.tmp:
            shutil.rmtree(self.tmp, ignore_errors=True)


def fresh(pc):
    """result of call c on a fresh manager set up for point p"""
    p, c = pc
    s = Session()
    try:
        s.register(MODEL_OF[p])
        h = s.setup(p, "good")
        return (p, c, h if c == "info" else s.call(c))
    finally:
        s.close()


def execute(beh):
    """run one TLC-generated history on one manager; returns the events (without Ref)"""
    s = Session()
    evs = []
    try:
        for op in beh:
            if op["op"] == "Register":
                s.register(op["m"])
                evs.append({"e": "Register", "m": op["m"], "out": "ok"})
            elif op["op"] == "Setup":
                try:
                    h = s.setup(op["p"], op["kind"])
                    evs.append({"e": "Setup", "p": op["p"], "kind": op["kind"], "out": "ok", "h": h})
                except Exception as ex:
                    evs.append({"e": "Setup", "p": op["p"], "kind": op["kind"], "out": type(ex).__name__, "h": "", "msg": str(ex)[:120]})
            elif op["op"] in ("Call", "CallTooEarly"):
                try:
                    evs.append({"e": "Call", "c": op["c"], "out": "ok", "h": s.call(op["c"])})
                except Exception as ex:
                    evs.append({"e": "Call", "c": op["c"], "out": "raises", "h": "", "exc": type(ex).__name__, "msg": str(ex)[:120]})
    finally:
        s.close()
    return evs
