"""C15 -- see harness/drivers/hydro.py (shared measurement) and spec/TraceHydro.tla (PROP = "C15")."""
from . import hydrocheck

LEVEL = hydrocheck.LEVELS["C15"]


def run(chk, tier, seed):
    hydrocheck.run(chk, tier, seed, "C15")


def replay(chk, path):
    return hydrocheck.replay(chk, path, "C15")
