"""Shared measurement for C04 (plasma profile conserves energy-momentum pointwise) and C09 (uniform-plasma
pressure = free-energy difference).  An EOM object is obtained from a real WallGoManager on the closed-form
polynomial models; findPlasmaProfile / _intermediatePressureResults are driven directly.
"""
import json
import math
import warnings
import zlib
from multiprocessing import Pool

import numpy as np

from .. import models, pipeline, quant, tlc

_MAN = {}


def manager(cell):
    key = (cell["model"], cell["tn"], cell["M"], cell.get("particles", 0), cell.get("u", 1.0))
    if key not in _MAN:
        m = models.pipeline_model(cell["model"], u=cell.get("u", 1.0))
        man, Tn = pipeline.build_manager(m, cell["tn"], M=cell["M"], N=5, nparticles=cell.get("particles", 0))
        _MAN.clear()
        _MAN[key] = (m, man, Tn)
    return _MAN[key]


def dVdT(m, f, T):
    """analytic temperature derivative of the model potential"""
    if m.nf == 1:
        phi = f[..., 0]
        return 2 * m.D * T * phi**2 - m.E * np.abs(phi) ** 3 - 4 * m.c * T**3
    g = m.to_canonical(f)
    return m.ch * T * g[..., 0] ** 2 + m.cs * T * g[..., 1] ** 2 - 4 * m.c * T**3


def zero_results(WG, eom):
    P, Mg, N = len(eom.particles), eom.grid.M, eom.grid.N
    z = WG.Polynomial(np.zeros((P, Mg - 1)), eom.grid, direction=("Array", "z"), basis=("Array", "Cardinal"))
    deltas = WG.BoltzmannDeltas(Delta00=z, Delta02=z, Delta20=z, Delta11=z)
    from WallGo.results import BoltzmannResults
    return BoltzmannResults(deltaF=np.zeros((P, Mg - 1, N - 1, N - 1)), Deltas=deltas, truncationError=0.0,
                            linearizationCriterion1=np.zeros(P), linearizationCriterion2=np.zeros(P))


def profile_event(cell):
    import WallGo as WG

    warnings.filterwarnings("ignore")
    ev = {"e": "Profile", "deton": False, "pts": [], "succ": False, "farLow": False, "farHigh": False, "dFarLow": -1, "dFarHigh": -1}
    try:
        m, man, Tn = manager(cell)
        hy, th = man.hydrodynamics, man.thermodynamics
        settings = WG.WallSolverSettings(bIncludeOffEquilibrium=False, meanFreePathScale=50.0, wallThicknessGuess=5.0)
        eom = man.setupWallSolver(settings).eom
        vw = {"defl": 0.5 * (hy.vMin + math.sqrt(hy.template.cb2)) * cell["vfrac"] * 2, "hyb": 0.5 * (math.sqrt(hy.template.cb2) + hy.vJ),
              "det": min(0.95, hy.vJ + 0.08 * cell["vfrac"] * 2)}[cell["branch"]]
        vw = min(max(vw, 0.05), 0.97)
        c1, c2, Tp, Tm, vmid = hy.findHydroBoundaries(vw)
        ev["deton"] = bool(vw > hy.vJ)
        ev["vw"] = quant.ticks(vw, 1e-7)
        nf = m.nf
        L0 = 5.0 / Tn
        widths = L0 * np.array([1.0, cell["ratio"]][:nf])
        offsets = np.array([0.0, cell["offset"]][:nf])
        wp = WG.WallParams(widths=widths, offsets=offsets)
        vevLow = th.freeEnergyLow(Tm).fieldsAtMinimum
        vevHigh = th.freeEnergyHigh(Tp).fieldsAtMinimum
        eom._updateGrid(wp, vmid)
        fields, dfields = eom.wallProfile(eom.grid.xiValues, vevLow, vevHigh, wp)
        res0 = zero_results(WG, eom)
        deltas = res0.Deltas
        rng = np.random.default_rng(zlib.crc32(json.dumps(cell, sort_keys=True).encode()))
        P = len(eom.particles)
        if cell.get("moments") and P:
            chi = eom.grid.chiValues
            wn = float(th.wHighT(Tn))
            def poly(scale):
                a = rng.normal(size=(P, 3))
                # localised on the wall like a true deviation from equilibrium (decays in the tails)
                loc = np.exp(-((eom.grid.xiValues - eom.grid.wallCenter) / (1.5 * eom.grid.wallThickness)) ** 4)
                return WG.Polynomial(scale * (a[:, 0:1] + a[:, 1:2] * chi[None, :] + a[:, 2:3] * chi[None, :] ** 2) * loc[None, :], eom.grid,
                                     direction=("Array", "z"), basis=("Array", "Cardinal"))
            # 1e-3 of the equilibrium enthalpy; Delta00 carries one power of energy less squared
            deltas = WG.BoltzmannDeltas(Delta00=poly(1e-3 * wn / Tn**2), Delta02=poly(1e-3 * wn), Delta20=poly(1e-3 * wn), Delta11=poly(1e-3 * wn))
        T, v = eom.findPlasmaProfile(c1, c2, vmid, fields, dfields, deltas, Tp, Tm)
        ev["succ"] = bool(eom.successTemperatureProfile)
        F = np.asarray(fields, float)
        dF = np.asarray(dfields, float)
        g2 = 1 / (1 - vmid**2)
        pts = []
        for k in range(len(T)):
            f, Tk, vk = F[k], float(T[k]), float(v[k])
            Vk = float(m.V(f[0] if nf == 1 else f, Tk))
            w = -Tk * float(dVdT(m, f, Tk))
            kin = 0.5 * float(np.sum(dF[k] ** 2))
            t30o = t33o = 0.0
            for i, p in enumerate(eom.particles):
                d00, d02, d20, d11 = (float(x.coefficients[i, k]) for x in (deltas.Delta00, deltas.Delta02, deltas.Delta20, deltas.Delta11))
                t30o += p.totalDOFs * g2 * ((d20 + d02) * vmid + d11 * (1 + vmid**2))
                t33o += p.totalDOFs * g2 * (d02 + vmid**2 * d20 + 2 * vmid * d11)
            gam2 = 1 / (1 - vk * vk)
            t30 = w * gam2 * vk + t30o
            t33 = kin - Vk + w * gam2 * vk * vk + t33o
            # which side of the minimiser of the residual function is the solution on? (slope of the LHS in T)
            # -- classified with the source terms the CODE used (its own deltaToTmunu), so that "minimiser only" describes
            # what the solver did; the residuals d30/d33 below are against the harness's own moment algebra
            fp = WG.Fields.castFromNumpy(f[None, :]).getFieldPoint(0)
            dfp = WG.Fields.castFromNumpy(dF[k][None, :]).getFieldPoint(0)
            c30, c33 = eom.deltaToTmunu(k, fp, vmid, deltas)
            s1, s2 = c1 - float(c30), c2 - float(c33)
            h = 1e-5 * Tk
            slope = eom.temperatureProfileEqLHS(fp, dfp, Tk + h, s1, s2) - eom.temperatureProfileEqLHS(fp, dfp, Tk - h, s1, s2)
            lhs = eom.temperatureProfileEqLHS(fp, dfp, Tk, s1, s2)
            scale_l = abs(c2) if c2 != 0 else 1.0
            # slope of the residual in units of the residual's scale per unit ln T: near the sonic point of a
            # hybrid the two roots merge with the minimiser and the slope vanishes ("flat")
            rel_slope = abs(slope) / (2 * h) * Tk / scale_l
            if Tk <= 0:
                kind = "none"
            elif abs(lhs) < 1e-3 * scale_l and rel_slope > 1e-2:
                kind = "root"
            elif rel_slope > 1e-2 and abs(lhs) / scale_l < 1.0 * rel_slope:
                # the residual is not small, but it is not at a stationary point either: following its slope reaches zero within
                # a factor e of this temperature -- a root exists nearby and the returned temperature is simply off it
                kind = "offRoot"
            else:
                kind = "minimumOnly"
            side = "flat" if rel_slope <= 1e-2 else ("above" if slope > 0 else "below")
            pts.append({"kind": kind, "side": side,
                        "d30": quant.digits(abs(t30 - c1) / abs(c1)), "d33": quant.digits(abs(t33 - c2) / abs(c2))})
        ev["pts"] = pts
        xi = eom.grid.xiValues
        Lmax = float(np.max(widths))
        # "far": every field within 1e-5 of its asymptote and the (localised) supplied moments negligible
        zl = xi[0] / widths + offsets
        zh = xi[-1] / widths + offsets
        Lg, cg = eom.grid.wallThickness, eom.grid.wallCenter
        ev["farLow"] = bool(np.all(zl <= -6) and (cg - xi[0]) / Lg >= 3.5)
        ev["farHigh"] = bool(np.all(zh >= 6) and (xi[-1] - cg) / Lg >= 3.5)
        vp, vm_, _, _ = hy.findMatching(vw)
        ev["dFarLow"] = min(quant.digits(abs(T[0] - Tm) / Tm), quant.digits(abs(v[0] + vm_)))
        ev["dFarHigh"] = min(quant.digits(abs(T[-1] - Tp) / Tp), quant.digits(abs(v[-1] + vp)))
        ev["out"] = "ok"
    except Exception as ex:
        ev["out"] = type(ex).__name__
        ev["msg"] = str(ex)[:200]
    cid = "prof_{model}_tn{tn}_M{M}_p{pp}_{branch}_vf{vfrac}_r{ratio}_o{offset}_mom{mo}".format(mo=int(bool(cell.get("moments"))), pp=cell.get("particles", 0), **cell)
    if cell.get("u", 1.0) != 1.0:
        cid += "_u{}".format(cell["u"])
    # description of the observation, used ONLY to match entries of known_findings.json
    bad = [p for p in ev.get("pts", []) if p["d33"] < 3 or p["d30"] < 8]
    if ev.get("out") != "ok":
        sym = "exception"
    elif bad and all(p["kind"] == "minimumOnly" for p in bad) and ev.get("succ"):
        sym = "sonicPointMinimiserAccepted"
    elif bad:
        sym = "residualOther"
    else:
        sym = "none"
    return {"id": cid, "ev": [ev], "cell": dict(cell, symptom=sym)}


def pressure_event(cell):
    import WallGo as WG

    warnings.filterwarnings("ignore")
    ev = {"e": "Pressure", "M": cell["M"], "dP": -1, "dGrad": -1, "paramsKept": False, "movedNear": False, "moved": False, "dPmoved": -1, "dPtails": -1,
          "ratioOK": bool(1 / 3 - 1e-9 <= cell["ratio"] <= 3 + 1e-9), "offsetOK": bool(abs(cell["offset"]) <= 2)}
    nfc = 1 if cell["model"] == "one" else 2
    wrel = np.array([1.0, cell["ratio"]][:nfc])
    orel = np.array([0.0, cell["offset"]][:nfc])
    R = ((np.max((1 - orel) * wrel) - np.min((-1 - orel) * wrel)) / 2) / np.min(wrel)
    ev["res10"] = int(10 * cell["M"] / (2 * R))
    try:
        m, man, Tn = manager(cell)
        hy, th = man.hydrodynamics, man.thermodynamics
        settings = WG.WallSolverSettings(bIncludeOffEquilibrium=False, meanFreePathScale=50.0, wallThicknessGuess=5.0)
        eom = man.setupWallSolver(settings).eom
        nf = m.nf
        T0 = cell["T"] * Tn
        L0 = cell["width"] / Tn
        widths = L0 * np.array([1.0, cell["ratio"]][:nf])
        offsets = np.array([0.0, cell["offset"]][:nf])
        wp = WG.WallParams(widths=widths.copy(), offsets=offsets.copy())
        vevLow = th.freeEnergyLow(T0).fieldsAtMinimum
        vevHigh = th.freeEnergyHigh(T0).fieldsAtMinimum
        vmid = -0.4
        eom._updateGrid(wp, vmid)
        n = len(eom.grid.xiValues)
        res0 = zero_results(WG, eom)
        p, wp2, _, _ = eom._intermediatePressureResults(wp, vevLow, vevHigh, -1.0, 1.0, vmid, res0, T0, T0,
                                                         temperatureProfileInput=T0 * np.ones(n), velocityProfileInput=vmid * np.ones(n), multiplier=0.0)
        ev["paramsKept"] = bool(np.array_equal(wp2.widths, widths) and np.array_equal(wp2.offsets, offsets))
        lo, hi = np.asarray(vevLow, float)[0], np.asarray(vevHigh, float)[0]
        # free-energy difference from the field-dependent part only (the common -c T^4 background would
        # cost the harness 7 digits to cancellation close to the critical temperature)
        bg = m.c * T0**4
        dV = (float(m.V(lo[0] if nf == 1 else lo, T0)) + bg) - (float(m.V(hi[0] if nf == 1 else hi, T0)) + bg)
        ev["dP"] = quant.digits(abs(float(p) - dV) / abs(dV))
        # the same wall on a grid whose two tails differ (what _updateGrid produces when out-of-equilibrium particles are
        # switched on: inside tail ~ gamma, outside ~ 1/gamma): the identity does not depend on the tails
        g = eom.grid
        g.changePositionFalloffScale(3.0 * g.tailLengthInside, 1.0 * g.tailLengthOutside, g.wallThickness, g.wallCenter)
        pt, _, _, _ = eom._intermediatePressureResults(WG.WallParams(widths=widths.copy(), offsets=offsets.copy()), vevLow, vevHigh, -1.0, 1.0, vmid, res0, T0, T0,
                                                        temperatureProfileInput=T0 * np.ones(n), velocityProfileInput=vmid * np.ones(n), multiplier=0.0)
        ev["dPtails"] = quant.digits(abs(float(pt) - dV) / abs(dV))
        eom._updateGrid(wp, vmid)
        # the default step (multiplier = 1) first moves the wall to the minimum of the action and then computes the pressure
        # of THAT wall: the identity holds for it as well, with the gradient of the moved profile
        wpb = WG.WallParams(widths=widths.copy(), offsets=offsets.copy())
        _, wp3, _, _ = eom._intermediatePressureResults(wpb, vevLow, vevHigh, -1.0, 1.0, vmid, res0, T0, T0,
                                                        temperatureProfileInput=T0 * np.ones(n), velocityProfileInput=vmid * np.ones(n), multiplier=1.0)
        # ... as the solver's own iteration does: re-map the grid to the moved wall and take the step again from there
        w3, o3 = np.asarray(wp3.widths, float).copy(), np.asarray(wp3.offsets, float).copy()
        eom._updateGrid(WG.WallParams(widths=w3.copy(), offsets=o3.copy()), vmid)
        p1, wp4, _, _ = eom._intermediatePressureResults(WG.WallParams(widths=w3.copy(), offsets=o3.copy()), vevLow, vevHigh, -1.0, 1.0, vmid, res0, T0, T0,
                                                         temperatureProfileInput=T0 * np.ones(n), velocityProfileInput=vmid * np.ones(n), multiplier=1.0)
        w4, o4 = np.asarray(wp4.widths, float), np.asarray(wp4.offsets, float)
        tb = eom.wallThicknessBounds
        inside = bool(np.all(w4 * Tn > 1.2 * tb[0]) and np.all(w4 * Tn < 0.85 * tb[1]) and np.max(w4) / np.min(w4) <= 3.0 and np.all(np.abs(o4) <= 2.0))
        ev["movedNear"] = bool(inside and np.all(w4 / w3 < 1.5) and np.all(w4 / w3 > 1 / 1.5) and np.all(np.abs(o4 - o3) < 0.5))
        ev["moved"] = bool(not (np.array_equal(w4, w3) and np.array_equal(o4, o3)))
        ev["dPmoved"] = quant.digits(abs(float(p1) - dV) / abs(dV))
        eom._updateGrid(wp, vmid)
        # gradient used in the integral vs a finite-difference derivative of the profile itself
        z = eom.grid.xiValues
        h = 1e-3 * float(np.min(widths))
        fld = lambda zz: np.asarray(eom.wallProfile(zz, vevLow, vevHigh, wp)[0], float)
        num = (-fld(z + 2 * h) + 8 * fld(z + h) - 8 * fld(z - h) + fld(z - 2 * h)) / (12 * h)
        ana = np.asarray(eom.wallProfile(z, vevLow, vevHigh, wp)[1], float)
        ev["dGrad"] = quant.digits(np.max(np.abs(num - ana)) / np.max(np.abs(ana)))
        ev["out"] = "ok"
    except Exception as ex:
        ev["out"] = type(ex).__name__
        ev["msg"] = str(ex)[:200]
    cid = "press_{model}_tn{tn}_M{M}_T{T}_w{width}_r{ratio}_o{offset}".format(**cell)
    return {"id": cid, "ev": [ev], "cell": cell}


def run_group(args):
    """all cells sharing one manager are executed in one process (the setup costs 5-15 s)"""
    kind, group = args
    fn = profile_event if kind == "profile" else pressure_event
    return [fn(c) for c in group]
