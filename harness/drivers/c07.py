"""C07 -- results are covariant under a change of units (see covar.py, spec/Covariance.tla, TraceCovariance.tla)."""
import json
from multiprocessing import Pool

from .. import tlc
from . import covar

LEVEL = "exploration"
TN = {"one": [2.1, 2.15], "two": [0.92, 0.93], "three": [0.92, 0.93]}


def jobs(tier):
    res = tlc.run_model("Covariance.tla", "Covariance.cfg")
    js = [j for j in tlc.json_lines(res["out"]) if j["kind"] == "units"]
    out = []
    for j in js:
        if tier == "quick" and not (j["model"] in ("one", "three") and j["setting"] == "default"):
            continue
        scales = [0, -2, 2] if tier == "quick" else [0, -2, -1, 1, 2]
        for tn in (TN[j["model"]][:1] if tier == "quick" else TN[j["model"]]):
            # two natural unit systems for the same model: temperatures of order 100 (GeV-like) and of order 1
            # (the factor 1e-2 then takes Tn below 0.01, where un-rescaled absolute thresholds bite)
            for base in (1.0, 0.004):
                if base != 1.0 and not (tn == TN[j["model"]][0] and j["setting"] == "default"):
                    continue
                if j["model"] == "three" and (tier == "quick" and base != 1.0 or j["setting"] == "tight" and tn != TN["three"][0]):
                    continue
                out.append(dict(j, tn=tn, scales=scales, base=base))
    return res, out


def run(chk, tier, seed):
    res, js = jobs(tier)
    chk.add_model(res, label="job generator: (model, setting) x unit factors; group facts for C08")
    reps = [dict(model=j["model"], setting=j["setting"], tn=j["tn"], u=j.get("base", 1.0) * 10.0 ** k) for j in js for k in j["scales"]]
    with Pool(min(16, len(reps))) as pool:
        evs = pool.map(covar.run_one, reps, chunksize=1)
    traces, i = [], 0
    for j in js:
        n = len(j["scales"])
        traces.append({"id": "units_{model}_{setting}_tn{tn}_base{base}".format(**j), "ev": evs[i:i + n], "cell": dict(model=j["model"], setting=j["setting"], tn=j["tn"], scales=j["scales"])})
        i += n
    for tr in traces:
        for ev in tr["ev"]:
            chk.count((tr["id"], ev["rep"]["u"]))
    chk.sample(traces[0])
    vr = tlc.validate("TraceCovariance.tla", "TraceCovariance_C07.cfg", traces)
    chk.add_validation(vr, traces)
    chk.extra.update(pipeline_runs=len(reps), checker_cmd="tlc Covariance.tla ; tlc TraceCovariance.tla (PROP=C07)")
    chk.rule = ("runs = polynomial model (one-/two-/three-field, phases existing over the whole traced range) x nucleation temperature x settings (default; "
                "errTol 1e-4 + phaseTracerTol 1e-8) x natural unit system (temperatures of order 100 / of order 1) x unit factor in {1e-2,1e-1,1,10,1e2} (quick: 1, 1e-2, 1e2): full pipeline setup, LTE speed, solveWall in LTE mode")
    chk.assumptions += ["every dimensionful input (field values, temperatures, mass parameters, variation scales) multiplied by the factor; couplings dimensionless"]


def replay(chk, path):
    with open(path) as f:
        tr = json.load(f)
    c = tr["cell"]
    evs = [covar.run_one(dict(model=c["model"], setting=c["setting"], tn=c["tn"], u=c.get("base", 1.0) * 10.0 ** k)) for k in c["scales"]]
    for ev in evs:
        print(json.dumps(ev)[:600])
    new = dict(tr, ev=evs)
    vr = tlc.validate("TraceCovariance.tla", "TraceCovariance_C07.cfg", [new])
    chk.add_validation(vr, [new])
    return chk.finish()
