"""C06 -- see harness/drivers/hydro.py (shared measurement) and spec/TraceHydro.tla (PROP = "C06")."""
from . import hydrocheck

LEVEL = hydrocheck.LEVELS["C06"]


def run(chk, tier, seed):
    hydrocheck.run(chk, tier, seed, "C06")


def replay(chk, path):
    return hydrocheck.replay(chk, path, "C06")
