"""C20 -- thermal integrals, their shipped tables and the ideal-gas limit agree.

ThermalInt.tla: obligation matrix over representations (direct quadrature / shipped table / closed
forms and the Bessel series) and regions of x = m^2/T^2, plus the one-loop thermal potential cells.
Every cell is measured on the real JbIntegral / JfIntegral / EffectivePotentialNoResum and discharged
in TLC (TraceThermalInt.tla); a run is accepted only if the matrix is complete.
"""
import json
import math
import warnings
from multiprocessing import Pool

import numpy as np
from scipy.special import kn

from .. import quant, tlc

LEVEL = "exploration"


def series(x, fermion, nmax=400):
    """J(x) for x > 0 from the Bessel-function series of the defining integral"""
    s = math.sqrt(x)
    tot = 0.0
    for n in range(1, nmax + 1):
        term = x * kn(2, n * s) / (n * n)
        if fermion:
            term *= (-1) ** (n + 1)
        tot += term
        if abs(term) < 1e-17 * abs(tot):
            break
    return -tot


def imag_closed(x, fermion):
    """Im J(x) for -4 pi^2 < x < 0 in closed form: the phase of 1 -/+ exp(-i w), w = sqrt(|x| - y^2), integrated over y"""
    s = math.sqrt(-x)
    if not fermion:
        return math.pi * s**3 / 6 - math.pi * s**4 / 32          # phase (pi - w)/2, w < 2 pi
    r = math.pi * s**4 / 32                                      # phase w/2 ...
    if s > math.pi:
        r -= math.pi * (s * s - math.pi**2) ** 1.5 / 3           # ... wrapped by -pi where w > pi
    return r


def re_alt(x, fermion):
    """Re J(x) for x < 0 by an independent quadrature: energy variable instead of momentum, complex logarithm
    instead of the code's real-valued sin/cos forms, log1p for the tail"""
    import cmath
    from scipy.integrate import quad

    s = math.sqrt(-x)
    sg = 1.0 if fermion else -1.0

    def inner(w):
        z = 1.0 + sg * cmath.exp(-1j * w)
        if abs(z) == 0.0 or w <= 0.0:
            return 0.0
        return -sg * math.sqrt(max(s * s - w * w, 0.0)) * w * math.log(abs(z))

    def outer(e):
        return -sg * math.sqrt(e * e + s * s) * e * math.log1p(sg * math.exp(-e)) if e > 0 else 0.0

    pts = [k * math.pi for k in range(1, 40) if k * math.pi < s] or None      # log singularities at w = odd (J_f) / even (J_b) multiples of pi
    a = quad(inner, 0.0, s, epsabs=1e-12, epsrel=1e-12, limit=400, points=pts)[0]
    b = quad(outer, 0.0, np.inf, epsabs=1e-12, epsrel=1e-12, limit=400)[0]
    return a + b


def im_alt(x, fermion):
    """Im J(x) for any x < 0 by quadrature of the principal phase of 1 -/+ exp(-i w) in the energy variable, break points
    declared at every multiple of pi (for -4 pi^2 < x < 0 it reproduces imag_closed to 1e-13)"""
    import cmath
    from scipy.integrate import quad

    s = math.sqrt(-x)
    sg = 1.0 if fermion else -1.0
    f = lambda w: -sg * math.sqrt(max(s * s - w * w, 0.0)) * w * cmath.phase(1.0 + sg * cmath.exp(-1j * w)) if w > 0 else 0.0
    pts = [k * math.pi for k in range(1, 40) if k * math.pi < s] or None
    return quad(f, 0.0, s, epsabs=1e-12, epsrel=1e-12, limit=400, points=pts)[0]


def kinky(x, fermion):
    """within one unit of a point where J is not smooth in x (x = 0; x = -pi^2 for J_f): the cubic spline through
    the 0.1-spaced table is only accurate to ~1e-3 there"""
    return abs(x) < 1.0 or (fermion and abs(x + math.pi**2) < 1.0)


def series_rows(args):
    name, xs = args
    return np.array([series(x, name == "Jf") for x in xs])


def alt_rows(args):
    name, xs = args
    return np.array([[re_alt(x, name == "Jf"), imag_closed(x, name == "Jf")] for x in xs])


def direct_rows(args):
    name, xs = args
    import WallGo.PotentialTools as PT

    warnings.filterwarnings("ignore")
    J = (PT.JbIntegral if name == "Jb" else PT.JfIntegral)(bUseAdaptiveInterpolation=False)
    return np.asarray(J._functionImplementation(np.asarray(xs, float)))


def measure(tier, seed):
    import WallGo
    import WallGo.PotentialTools as PT
    from WallGo import EExtrapolationType as E

    warnings.filterwarnings("ignore")
    evs = []
    rng = np.random.default_rng(seed)
    tables = {"Jb": PT.defaultIntegrals.Jb, "Jf": PT.defaultIntegrals.Jf}
    for name, tab in tables.items():
        tab.setExtrapolationType(E.NONE, E.NONE)
        X = np.asarray(tab._interpolationPoints, float)
        V = np.asarray(tab._interpolationValues, float)
        neg = np.where(X < 0)[0]
        pos = np.where(X >= 0)[0]
        neg_s, pos_s = neg, pos                            # every row, in both tiers (a few seconds on 16 cores)
        idx = np.concatenate([neg_s, pos_s])
        chunks = np.array_split(idx, 32)
        with Pool(16) as pool:
            out = pool.map(direct_rows, [(name, X[c]) for c in chunks if len(c)])
        D = np.concatenate(out)
        Dn, Dp = D[: len(neg_s)], D[len(neg_s):]
        sc = lambda a: np.maximum(np.abs(a), 1.0)           # errors on the scale of the integral (J(0) ~ -2), see ThermalInt.tla
        evs.append({"e": "Obs", "kind": "integral", "J": name, "what": "tableRe_neg", "n": int(len(neg_s)),
                    "d": quant.digits(np.max(np.abs(Dn[:, 0] - V[neg_s, 0]) / sc(V[neg_s, 0])))})
        evs.append({"e": "Obs", "kind": "integral", "J": name, "what": "tableIm_neg", "n": int(len(neg_s)),
                    "d": quant.digits(np.max(np.abs(Dn[:, 1] - V[neg_s, 1]) / sc(V[neg_s, 1])))})
        evs.append({"e": "Obs", "kind": "integral", "J": name, "what": "tableRe_pos", "n": int(len(pos_s)),
                    "d": quant.digits(np.max(np.abs(Dp[:, 0] - V[pos_s, 0]) / sc(V[pos_s, 0])))})
        # every row with x > 0 against the Bessel series, on a scale that still sees the exponentially small rows
        # (quadrature error there is up to 2e-11 absolute: rows below ~1e-9 are not resolved by any representation)
        px = pos_s[X[pos_s] > 0]
        with Pool(16) as pool:
            S = np.concatenate(pool.map(series_rows, [(name, X[c]) for c in np.array_split(px, 32) if len(c)]))
        evs.append({"e": "Obs", "kind": "integral", "J": name, "what": "tableSeries_pos", "n": int(len(px)),
                    "d": quant.digits(np.max(np.abs(S - V[px, 0]) / np.maximum(np.abs(S), 1e-4)))})
        evs.append({"e": "Obs", "kind": "integral", "J": name, "what": "imZero_pos", "n": int(len(pos_s)),
                    "d": 16 if (np.all(Dp[:, 1] == 0.0) and np.all(V[pos, 1] == 0.0)) else 0})
        fer = name == "Jf"
        # rows of the table with x < 0 against the independent representations (the table was generated by the quadrature
        # it is compared with above: a defect of the quadrature at tabulation time shows only here)
        with Pool(16) as pool:
            A = np.concatenate(pool.map(alt_rows, [(name, X[c]) for c in np.array_split(neg_s, 32) if len(c)]))
        evs.append({"e": "Obs", "kind": "integral", "J": name, "what": "tableAlt_neg", "n": int(len(neg_s)),
                    "d": quant.digits(np.max(np.abs(A - V[neg_s]) / np.maximum(np.abs(A), 1.0)))})
        ab = lambda a: np.maximum(np.abs(a), 1.0)          # J(0) ~ -2: errors are judged on the scale of the integral, not of its exponentially small tail
        # independent representations for x < 0: closed-form imaginary part, energy-variable quadrature for the real part
        xs = np.concatenate([np.linspace(-19.95, -0.05, 14 if tier == "quick" else 120), -math.pi**2 + np.array([-0.3, -0.01, 0.01, 0.3])])
        dr = direct_rows((name, xs))
        evs.append({"e": "Obs", "kind": "integral", "J": name, "what": "imClosed_neg", "n": int(len(xs)),
                    "d": quant.digits(np.max(np.abs(dr[:, 1] - np.array([imag_closed(x, fer) for x in xs])) / ab(dr[:, 1])))})
        evs.append({"e": "Obs", "kind": "integral", "J": name, "what": "reAlt_neg", "n": int(len(xs)),
                    "d": quant.digits(np.max(np.abs(dr[:, 0] - np.array([re_alt(x, fer) for x in xs])) / ab(dr[:, 0])))})
        # the table between its rows (the spline) vs the direct integral, away from and near the non-smooth points
        mid = 0.5 * (X[1:] + X[:-1])
        pick = mid[rng.integers(0, 40)::40] if tier == "quick" else mid
        pick = np.unique(np.concatenate([pick, mid[np.abs(mid) < 1.0][:: (4 if tier == "quick" else 1)], mid[np.abs(mid + math.pi**2) < 1.0][:: (4 if tier == "quick" else 1)]]))
        with Pool(16) as pool:
            Dm = np.concatenate(pool.map(direct_rows, [(name, c) for c in np.array_split(pick, 32) if len(c)]))
        Tm = np.asarray(tab(pick))
        err = np.max(np.abs(Tm - Dm) / ab(Dm), axis=1)
        kk = np.array([kinky(x, fer) for x in pick])
        evs.append({"e": "Obs", "kind": "integral", "J": name, "what": "interpSmooth", "n": int((~kk).sum()), "d": quant.digits(np.max(err[~kk]))})
        evs.append({"e": "Obs", "kind": "integral", "J": name, "what": "interpKink", "n": int(kk.sum()), "d": quant.digits(np.max(err[kk]))})
        # first derivative of the table vs Richardson-extrapolated central differences of the direct integral (smooth region)
        xs = np.array([-15.0, -5.0, -2.0, 1.5, 5.0, 10.0, 50.0, 300.0]) if tier == "quick" else np.concatenate([np.linspace(-19, -1.5, 12), np.geomspace(1.5, 900, 16)])
        xs = xs[[not (fer and abs(x + math.pi**2) < 1.0) for x in xs]]
        h = 0.02 * np.maximum(1.0, np.abs(xs)) ** 0.5
        f = lambda a: direct_rows((name, a))
        d1 = (f(xs + h) - f(xs - h)) / (2 * h)[:, None]
        d2 = (f(xs + h / 2) - f(xs - h / 2)) / h[:, None]
        fd = (4 * d2 - d1) / 3
        td = np.asarray(tab.derivative(xs, order=1))
        evs.append({"e": "Obs", "kind": "integral", "J": name, "what": "tableDeriv", "n": int(len(xs)),
                    "d": quant.digits(np.max(np.abs(fd - td) / np.maximum(np.abs(fd), 1e-2)))})
        z = direct_rows((name, [0.0]))[0]
        exact0 = -math.pi**4 / 45 if name == "Jb" else -7 * math.pi**4 / 360
        evs.append({"e": "Obs", "kind": "integral", "J": name, "what": "valueAtZero", "n": 1,
                    "d": min(quant.reldigits(z[0], exact0), 16 if z[1] == 0.0 else 0)})
        xs = np.geomspace(0.05, 999, 12 if tier == "quick" else 60)
        dr = direct_rows((name, xs))[:, 0]
        sr = np.array([series(x, fer) for x in xs])
        evs.append({"e": "Obs", "kind": "integral", "J": name, "what": "series_pos", "n": int(len(xs)),
                    "d": quant.digits(np.max(np.abs(dr - sr) / ab(sr)))})
        # exponential decay: |J| stays under the Boltzmann envelope x K2(sqrt x) (J_b slightly above, J_f slightly below it) and within
        # the quadrature's absolute accuracy of the exact value
        xs = np.array([50.0, 100.0, 300.0, 900.0, 2000.0, 5000.0]) if tier == "quick" else np.geomspace(50, 1e5, 40)
        dr = direct_rows((name, xs))[:, 0]
        ex = np.array([series(x, fer) for x in xs])
        env = np.array([x * kn(2, math.sqrt(x)) for x in xs])
        inside = np.all(dr <= 1e-12) and np.all(np.abs(dr) <= 1.1 * env + 1e-11)
        evs.append({"e": "Obs", "kind": "integral", "J": name, "what": "decay_large", "n": int(len(xs)),
                    "d": quant.digits(np.max(np.abs(dr - ex))) if inside else -1})
        # beyond both ends of the table the direct integral stays finite and continuous with the end value
        xlo = [-20.5, -25.0, -38.0, -41.0, -45.0, -90.0, -100.0, -170.0]      # across x = -4 pi^2 (J_b) and -9 pi^2 (J_f), where the phase wraps again
        lo = direct_rows((name, xlo))
        hi = direct_rows((name, [1000.5, 1500.0, 5000.0]))
        lo_ok = np.all(np.isfinite(lo)) and all(quant.digits(abs(lo[i, 1] - im_alt(x, fer)) / max(1.0, abs(lo[i, 1]))) >= 6
                                                and quant.digits(abs(lo[i, 0] - re_alt(x, fer)) / max(1.0, abs(lo[i, 0]))) >= 6 for i, x in enumerate(xlo))
        evs.append({"e": "Obs", "kind": "integral", "J": name, "what": "beyond_low", "n": len(xlo),
                    "d": quant.digits(abs(lo[0, 0] - V[0, 0]) / abs(V[0, 0])) if lo_ok else -1})
        evs.append({"e": "Obs", "kind": "integral", "J": name, "what": "beyond_high", "n": 3,
                    "d": 16 if (np.all(np.isfinite(hi)) and np.all(np.abs(hi[:, 0]) <= abs(V[-1, 0]) * 1.001 + 1e-300)) else -1})

    # ---- one-loop thermal potential
    class Pot(PT.EffectivePotentialNoResum):
        fieldCount = 1
        effectivePotentialError = 1e-15

        def __init__(self, mB, mF, nB, nF, **kw):
            super().__init__(**kw)
            self.mB, self.mF, self.nB, self.nF = np.asarray(mB, float), np.asarray(mF, float), np.asarray(nB, float), np.asarray(nF, float)

        def bosonInformation(self, fields, temperature):
            return self.mB, self.nB, 1.5 * np.ones_like(self.mB), 100.0

        def fermionInformation(self, fields, temperature):
            return self.mF, self.nF, 1.5 * np.ones_like(self.mF), 100.0

        def evaluate(self, fields, temperature):
            return self.potentialOneLoopThermal(self.bosonInformation(fields, temperature), self.fermionInformation(fields, temperature), temperature)

    worst = 16
    for T in (0.3, 50.0, 4000.0):
        for nB, nF in ((1, 0), (0, 1), (28, 90), (3, 12)):
            p = Pot([0.0], [0.0], [nB], [nF], useDefaultInterpolation=True, imaginaryOption=PT.EImaginaryOption.ERROR)
            v = float(p.evaluate(None, T))
            sb = -(math.pi**2 / 90) * (nB + 7.0 / 8.0 * nF) * T**4
            worst = min(worst, quant.reldigits(v, sb))
    evs.append({"e": "Obs", "kind": "potential", "pot": "stefanBoltzmannTable", "n": 12, "d": worst})
    worst = 16
    for T in (0.3, 50.0, 4000.0):
        for nB, nF in ((1, 0), (0, 1), (28, 90)):
            p = Pot([0.0, 0.0], [0.0], [nB, 2 * nB], [nF], useDefaultInterpolation=False, imaginaryOption=PT.EImaginaryOption.ERROR)
            v = float(p.evaluate(None, T))
            sb = -(math.pi**2 / 90) * (3 * nB + 7.0 / 8.0 * nF) * T**4
            worst = min(worst, quant.reldigits(v, sb))
    evs.append({"e": "Obs", "kind": "potential", "pot": "stefanBoltzmannDirect", "n": 9, "d": worst})
    worst = 16
    for T in (0.3, 50.0):
        p = Pot([900.0 * T * T], [900.0 * T * T], [3], [12], useDefaultInterpolation=True)
        v = float(p.evaluate(None, T))
        sb = (math.pi**2 / 90) * (3 + 7.0 / 8.0 * 12) * T**4
        worst = min(worst, quant.digits(abs(v) / sb))
    evs.append({"e": "Obs", "kind": "potential", "pot": "heavySuppressed", "n": 2, "d": worst})
    # ... and beyond the upper end of the tables, with the extrapolation modes the constructor itself selects
    worst = 16
    for T in (0.3, 50.0):
        for x in (1000.5, 2000.0, 1e4, 1e6):
            for nB, nF in ((3, 0), (0, 12)):
                p = Pot([x * T * T], [x * T * T], [nB], [nF], useDefaultInterpolation=True)
                v = float(p.evaluate(None, T))
                sb = (math.pi**2 / 90) * (nB + 7.0 / 8.0 * nF) * T**4
                worst = min(worst, quant.digits(abs(v) / sb) if np.isfinite(v) else -1)
    evs.append({"e": "Obs", "kind": "potential", "pot": "heavyBeyondTable", "n": 16, "d": worst})
    for end, xe in (("low", -20.0), ("high", 1000.0)):
        for mode in ("NONE", "CONSTANT", "FUNCTION"):
            for tab in tables.values():
                tab.setExtrapolationType(E[mode], E[mode])
            p = Pot([0.0], [0.0], [1], [1], integrals=PT.defaultIntegrals, imaginaryOption=PT.EImaginaryOption.PRINCIPAL_PART)
            T = 10.0
            worst = 16
            for which in ("B", "F"):
                vals = []
                for dx in (-1e-9, 1e-9):
                    m2 = (xe + dx * abs(xe)) * T * T
                    p.mB, p.mF = (np.array([m2]), np.array([0.0])) if which == "B" else (np.array([0.0]), np.array([m2]))
                    vals.append(float(np.real(p.evaluate(None, T))))
                worst = min(worst, quant.digits(abs(vals[0] - vals[1]) / max(abs(vals[0]), 1e-12 * T**4)))
            evs.append({"e": "Obs", "kind": "continuity", "end": end, "mode": mode, "n": 2, "d": worst})
    for tab in tables.values():
        tab.setExtrapolationType(E.CONSTANT, E.CONSTANT)
    # continuity in the mass across m^2 = 0, where the integrand switches branch
    for rep in ("direct", "table"):
        p = Pot([0.0], [0.0], [1], [1], useDefaultInterpolation=(rep == "table"), imaginaryOption=PT.EImaginaryOption.PRINCIPAL_PART)
        T, worst = 10.0, 16
        for which in ("B", "F"):
            vals = []
            for x in (-1e-9, 0.0, 1e-9):
                p.mB, p.mF = (np.array([x * T * T]), np.array([0.0])) if which == "B" else (np.array([0.0]), np.array([x * T * T]))
                vals.append(float(np.real(p.evaluate(None, T))))
            worst = min(worst, quant.digits(max(abs(vals[0] - vals[1]), abs(vals[2] - vals[1])) / abs(vals[1])))
        evs.append({"e": "Obs", "kind": "potential", "pot": "continuousAtZero_" + rep, "n": 6, "d": worst})
    # the thermal sum itself: random spectra (positive and negative m^2), scalar and array temperatures, vs T^4/(2 pi^2) sum n J
    # with J from the independent representations
    def jref(x, fer):
        return (exact0s[fer] if x == 0 else series(x, fer)) if x >= 0 else re_alt(x, fer)
    exact0s = {False: -math.pi**4 / 45, True: -7 * math.pi**4 / 360}
    worst, npts = 16, 0
    for k in range(6 if tier == "quick" else 200):
        nb, nf = int(rng.integers(1, 5)), int(rng.integers(1, 4))
        Ts = np.array([float(np.exp(rng.uniform(-2, 8)))]) if k % 2 == 0 else np.exp(rng.uniform(-2, 8, size=int(rng.integers(2, 5))))
        xb = rng.choice([0.0, 1.0], size=nb, p=[0.15, 0.85]) * np.where(rng.random(nb) < 0.3, -rng.uniform(0.01, 19, nb), np.exp(rng.uniform(-3, 6.5, nb)))
        xf = rng.choice([0.0, 1.0], size=nf, p=[0.15, 0.85]) * np.where(rng.random(nf) < 0.3, -rng.uniform(0.01, 19, nf), np.exp(rng.uniform(-3, 6.5, nf)))
        dB, dF = rng.integers(1, 30, nb).astype(float), rng.integers(1, 50, nf).astype(float)
        for Tin in ([float(Ts[0])] if len(Ts) == 1 else [Ts]):
            Tarr = np.atleast_1d(Tin)
            mB = xb[None, :] * Tarr[:, None] ** 2
            mF = xf[None, :] * Tarr[:, None] ** 2
            # every third spectrum: one number of degrees of freedom shared by all species ("float or array_like" in the docstring)
            if k % 3 == 2:
                dB, dF = np.full(nb, dB[0]), np.full(nf, dF[0])
            p = Pot(mB if len(Tarr) > 1 else mB[0], mF if len(Tarr) > 1 else mF[0], float(dB[0]) if k % 3 == 2 else dB, float(dF[0]) if k % 3 == 2 else dF,
                    useDefaultInterpolation=False, imaginaryOption=PT.EImaginaryOption.PRINCIPAL_PART)
            got = np.atleast_1d(np.asarray(p.evaluate(None, Tin), float))
            ref = np.array([t**4 / (2 * math.pi**2) * (sum(d * jref(x, False) for d, x in zip(dB, xb)) + sum(d * jref(x, True) for d, x in zip(dF, xf))) for t in Tarr])
            scale = np.array([t**4 / (2 * math.pi**2) * (dB.sum() + dF.sum()) for t in Tarr])
            ok_shape = got.shape == ref.shape
            worst = min(worst, quant.digits(np.max(np.abs(got - ref) / scale)) if ok_shape else -1)
            npts += len(Tarr)
    evs.append({"e": "Obs", "kind": "potential", "pot": "thermalSum", "n": npts, "d": worst})
    # the same sum in unit systems where the temperature is numerically tiny or huge (100 GeV in units of 1e10 GeV, of the Planck
    # mass, in eV, ...): V_T / T^4 depends on m^2/T^2 only, heavy states stay Boltzmann suppressed
    worst, npts = 16, 0
    xbU, xfU, dBU, dFU = np.array([0.0, 0.7, 9.0, 100.0]), np.array([0.3, 25.0]), np.array([1.0, 3.0, 6.0, 2.0]), np.array([12.0, 4.0])
    refU = sum(d * jref(x, False) for d, x in zip(dBU, xbU)) + sum(d * jref(x, True) for d, x in zip(dFU, xfU))
    for rep in ("direct", "table"):
        for T in (8e-18, 1e-8, 3e-5, 1e-3, 1.0, 1e5, 1e12):
            for Tin in (T, np.array([T, 1.7 * T])):
                Tarr = np.atleast_1d(Tin)
                mB, mF = xbU[None, :] * Tarr[:, None] ** 2, xfU[None, :] * Tarr[:, None] ** 2
                p = Pot(mB if len(Tarr) > 1 else mB[0], mF if len(Tarr) > 1 else mF[0], dBU, dFU, useDefaultInterpolation=(rep == "table"), imaginaryOption=PT.EImaginaryOption.PRINCIPAL_PART)
                got = np.atleast_1d(np.asarray(p.evaluate(None, Tin), float)) / Tarr**4 * (2 * math.pi**2)
                d = quant.digits(np.max(np.abs(got - refU)) / (dBU.sum() + dFU.sum())) if got.shape == Tarr.shape and np.all(np.isfinite(got)) else -1
                worst = min(worst, d + 4 if rep == "table" and d >= 0 else d)       # through the tables: spline accuracy (interpSmooth / interpKink cells), 3 digits here
                # a heavy state alone: suppressed by e^{-m/T}, whatever the units
                ph = Pot([400.0 * T * T], [400.0 * T * T], [3], [12], useDefaultInterpolation=(rep == "table"))
                vh = float(ph.evaluate(None, T)) / T**4
                worst = min(worst, 16 if abs(vh) < 1e-6 else 0)
                npts += len(Tarr) + 1
    evs.append({"e": "Obs", "kind": "potential", "pot": "thermalSumUnits", "n": npts, "d": worst})
    # history: the integral object a potential builds for itself (no tables) is asked 600 other arguments -- a temperature scan of a
    # four-boson spectrum -- between two evaluations of the same points; both must agree with the independent representation and
    # with each other
    xs_probe = [0.0, 0.05, 0.3, 0.45, 2.0, 30.0, 250.0]
    p = Pot([0.0], [0.0], [1.0], [1.0], useDefaultInterpolation=False, imaginaryOption=PT.EImaginaryOption.PRINCIPAL_PART)
    T = 3.0

    def probe():
        out = []
        for x in xs_probe:
            p.mB, p.mF, p.nB, p.nF = np.array([x * T * T]), np.array([x * T * T]), np.array([1.0]), np.array([0.0])
            b = float(p.evaluate(None, T))
            p.nB, p.nF = np.array([0.0]), np.array([1.0])
            out.append((b / T**4 * 2 * math.pi**2, float(p.evaluate(None, T)) / T**4 * 2 * math.pi**2))
        return np.array(out)

    before = probe()
    p.nB, p.nF = np.ones(4), np.ones(1)
    for Ts in np.linspace(1.0, 30.0, 160):
        p.mB, p.mF = np.array([1.0, 50.0, 300.0, 900.0]), np.array([7.0])
        p.evaluate(None, float(Ts))
    after = probe()
    refH = np.array([(jref(x, False), jref(x, True)) for x in xs_probe])
    dh = min(quant.digits(np.max(np.abs(before - refH))), quant.digits(np.max(np.abs(after - refH))), quant.digits(np.max(np.abs(after - before))))
    evs.append({"e": "Obs", "kind": "potential", "pot": "historyIndependent", "n": 2 * len(xs_probe) + 800, "d": dh})
    # Coleman-Weinberg term: closed form, m^2 -> 0 limit, and the same imaginary-part options
    worst = 16
    for k in range(40):
        m2 = np.exp(rng.uniform(-6, 12, 3)); n = rng.integers(1, 20, 3).astype(float); c = rng.choice([0.5, 1.5], 3); mu = float(np.exp(rng.uniform(0, 6)))
        got = PT.EffectivePotentialNoResum.jCW(m2, n, c, mu)
        ref = n * m2**2 * (np.log(m2 / mu**2) - c) / (64 * math.pi**2)
        worst = min(worst, quant.digits(np.max(np.abs(np.real(got) - ref) / np.maximum(np.abs(ref), 1e-300))), 16 if np.all(np.abs(np.imag(got)) <= 1e-90 * np.abs(ref) + 1e-300) else 0)
    z = PT.EffectivePotentialNoResum.jCW(np.array([1e-30, 0.0]), 1.0, 1.5, 100.0)
    if not (np.all(np.isfinite(z)) and np.all(np.abs(z) < 1e-50)):
        worst = -1
    evs.append({"e": "Obs", "kind": "potential", "pot": "cwFormula", "n": 122, "d": worst})
    # decision table of the imaginary-part options x sign of m^2
    T = 10.0
    for opt in ("ERROR", "ABS_ARGUMENT", "ABS_RESULT", "PRINCIPAL_PART"):
        for sgn, m2 in (("pos", 3.0 * T * T), ("neg", -3.0 * T * T)):
            p = Pot([m2], [abs(m2)], [2], [4], integrals=PT.defaultIntegrals, imaginaryOption=PT.EImaginaryOption[opt])
            ref = Pot([abs(m2)], [abs(m2)], [2], [4], integrals=PT.defaultIntegrals, imaginaryOption=PT.EImaginaryOption.PRINCIPAL_PART)
            pp = Pot([m2], [abs(m2)], [2], [4], integrals=PT.defaultIntegrals, imaginaryOption=PT.EImaginaryOption.PRINCIPAL_PART)
            try:
                v = p.evaluate(None, T)
                raised = False
            except ValueError:
                raised, v = True, None
            vpp = float(np.real(pp.evaluate(None, T)))
            if sgn == "pos":
                ok = (not raised) and np.isreal(v) and float(v) == vpp
            elif opt == "ERROR":
                ok = raised
            elif opt == "ABS_ARGUMENT":
                ok = (not raised) and float(v) == float(ref.evaluate(None, T))
            elif opt == "ABS_RESULT":
                ok = (not raised) and float(v) == abs(vpp)
            else:
                ok = (not raised) and float(v) == vpp and np.isreal(v)
            evs.append({"e": "Obs", "kind": "imag", "opt": opt, "sign": sgn, "n": 1, "d": 16 if ok else 0})
            # same decision table for the zero-temperature one-loop term
            bos = lambda q: (q.mB, q.nB, 1.5 * np.ones_like(q.mB), 100.0)
            fer_ = lambda q: (q.mF, q.nF, 1.5 * np.ones_like(q.mF), 100.0)
            try:
                v = p.potentialOneLoop(bos(p), fer_(p))
                raised = False
            except ValueError:
                raised, v = True, None
            full = complex(np.sum(p.jCW(p.mB, p.nB, 1.5, 100.0)) - np.sum(p.jCW(p.mF, p.nF, 1.5, 100.0)))
            if sgn == "pos":
                ok = (not raised) and np.isreal(v) and float(v) == full.real
            elif opt == "ERROR":
                ok = raised
            elif opt == "ABS_ARGUMENT":
                ok = (not raised) and float(np.real(v)) == float(ref.potentialOneLoop(bos(ref), fer_(ref)))
            elif opt == "ABS_RESULT":
                ok = (not raised) and float(v) == abs(full) and abs(full.imag) > 0
            else:
                ok = (not raised) and np.isreal(v) and float(v) == full.real
            evs.append({"e": "Obs", "kind": "imagCW", "opt": opt, "sign": sgn, "n": 1, "d": 16 if ok else 0})
    evs.append({"e": "End"})
    return evs


def run(chk, tier, seed):
    chk.add_model(tlc.run_model("ThermalInt.tla", "ThermalInt.cfg"), label="obligation matrix (64 cells), all orders of up to two discharges")
    try:
        evs = measure(tier, seed)
    except Exception as ex:
        evs = [{"e": "Exception", "out": type(ex).__name__, "msg": str(ex)[:300]}]
    tr = {"id": f"thermal_{tier}", "ev": evs, "cell": {"tier": tier}}
    for ev in evs:
        if ev["e"] == "Obs":
            chk.count(json.dumps({k: ev.get(k) for k in ("kind", "J", "what", "pot", "end", "mode", "opt", "sign")}))
    chk.evaluations = sum(ev.get("n", 0) for ev in evs)
    chk.sample({"id": tr["id"], "ev": evs[:8]})
    vr = tlc.validate("TraceThermalInt.tla", "TraceThermalInt.cfg", [tr])
    chk.add_validation(vr, [tr])
    chk.extra.update(digits_by_cell={(ev.get("J", ev.get("pot", ev["kind"])) + ":" + str(ev.get("what", ev.get("end", ev.get("opt", ""))) ) + str(ev.get("mode", ev.get("sign", "")))): ev["d"] for ev in evs if ev["e"] == "Obs"},
                     checker_cmd="tlc ThermalInt.tla ; tlc TraceThermalInt.tla")
    chk.rule = ("cells of the obligation matrix (32 integral cells, 30 potential cells); rows of both shipped tables compared with the direct quadrature "
                "(all 2 x 10000 rows in both tiers; between the rows: every 40th interval in quick, every interval in thorough), Bessel series on 12/60 points in (0.05, 900]; "
                "evaluations = number of compared points")
    chk.assumptions += ["Bessel series -sum x K2(n sqrt x)/n^2 as independent representation for x > 0 (scipy.special.kn)",
                        "for x < 0: closed form of Im J (phase of 1 -/+ exp(-iw) integrated analytically) and an independent quadrature of Re J "
                        "(energy variable, complex logarithm, break points declared, tolerance 1e-12); the two agree with the shipped J_b rows to 4e-10"]


def replay(chk, path):
    evs = measure("quick", chk.seed)
    for ev in evs:
        print(json.dumps(ev))
    tr = {"id": "thermal_replay", "ev": evs}
    vr = tlc.validate("TraceThermalInt.tla", "TraceThermalInt.cfg", [tr])
    chk.add_validation(vr, [tr])
    return chk.finish()
