"""C08 -- results are covariant under relabelling of field space (see covar.py, spec/Covariance.tla, TraceCovariance.tla)."""
import json
from multiprocessing import Pool

from .. import tlc
from . import covar

LEVEL = "exploration"
IDENT = {"perm": [1, 2], "sign": [1, 1], "shift": 0}


def jobs(tier):
    res = tlc.run_model("Covariance.tla", "Covariance.cfg")
    js = [j for j in tlc.json_lines(res["out"]) if j["kind"] == "relabel"]
    if tier == "quick":
        want = [([2, 1], [1, 1], 0), ([1, 2], [-1, 1], 0), ([1, 2], [1, 1], 1)]
        js = [j for j in js if (j["g"]["perm"], j["g"]["sign"], j["g"]["shift"]) in want]
    return res, js


def run(chk, tier, seed):
    res, js = jobs(tier)
    chk.add_model(res, label="group elements (perm, sign, shift) of the two-field model; inverse/composition facts")
    # (nucleation temperature, tolerance setting): the tight setting (errTol 1e-4) resolves relabelling effects of a few 1e-4 in vw
    tns = [(0.92, "tight")] if tier == "quick" else [(0.92, "tight"), (0.92, "default"), (0.93, "tight")]
    reps = []
    for tn, st in tns:
        reps.append(dict(model="two", tn=tn, setting=st, g=IDENT))
        reps += [dict(model="two", tn=tn, setting=st, g=j["g"]) for j in js]
    with Pool(min(16, len(reps))) as pool:
        evs = pool.map(covar.run_one, reps, chunksize=1)
    traces, per = [], 1 + len(js)
    for t, (tn, st) in enumerate(tns):
        block = evs[t * per:(t + 1) * per]
        for k, j in enumerate(js):
            g = j["g"]
            traces.append({"id": "relabel_tn{}_{}_p{}_s{}_t{}".format(tn, st, "".join(map(str, g["perm"])), "".join("+" if s > 0 else "-" for s in g["sign"]), g["shift"]),
                           "ev": [block[0], block[1 + k]], "cell": dict(tn=tn, setting=st, g=g)})
    for tr in traces:
        chk.count(tr["id"])
    chk.sample(traces[0])
    vr = tlc.validate("TraceCovariance.tla", "TraceCovariance_C08.cfg", traces)
    chk.add_validation(vr, traces)
    chk.extra.update(pipeline_runs=len(reps), group_elements=len(js), checker_cmd="tlc Covariance.tla ; tlc TraceCovariance.tla (PROP=C08)")
    chk.rule = ("group elements = permutation x sign pattern x translation (3 vectors) of the two-field Z2 polynomial model, all 23 non-identity elements "
                "(quick: one permutation, one reflection, one translation), each compared with the identity run; full pipeline in LTE mode")
    chk.assumptions += ["potential, phase guesses and field scales transformed consistently by the harness (harness/models.py TwoField.perm/sign/shift)",
                        "three-field models are not covered (no closed-form three-field model in the harness)"]


def replay(chk, path):
    with open(path) as f:
        tr = json.load(f)
    c = tr["cell"]
    evs = [covar.run_one(dict(model="two", tn=c["tn"], setting=c.get("setting", "default"), g=IDENT)),
           covar.run_one(dict(model="two", tn=c["tn"], setting=c.get("setting", "default"), g=c["g"]))]
    for ev in evs:
        print(json.dumps(ev)[:700])
    new = dict(tr, ev=evs)
    vr = tlc.validate("TraceCovariance.tla", "TraceCovariance_C08.cfg", [new])
    chk.add_validation(vr, [new])
    return chk.finish()
