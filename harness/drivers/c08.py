"""C08 -- results are covariant under relabelling of field space (see covar.py, spec/Covariance.tla, TraceCovariance.tla)."""
import json
from multiprocessing import Pool

from .. import tlc
from . import covar

LEVEL = "exploration"
IDENT = {"perm": [1, 2], "sign": [1, 1], "shift": 0}
IDENT3 = {"perm": [1, 2, 3], "sign": [1, 1, 1], "shift": 0}
MODEL = {2: "two", 3: "three"}


def jobs3(tier, seed):
    """group elements of the three-field model (6 permutations x 8 sign patterns x 3 translations = 143 non-identity
    elements from TLC); quick: a 3-cycle combined with a reflection and a translation, and the transposition (1 3);
    thorough: every permutation at least three times, sign patterns and translations drawn with the seed"""
    import random
    res = tlc.run_model("Covariance.tla", "Covariance3.cfg")
    js = [j for j in tlc.json_lines(res["out"]) if j["kind"] == "relabel"]
    key = lambda j: (j["g"]["perm"], j["g"]["sign"], j["g"]["shift"])
    js.sort(key=key)
    if tier == "quick":
        want = [([3, 1, 2], [1, -1, 1], 1), ([3, 2, 1], [1, 1, 1], 0)]
        return res, [j for j in js if key(j) in want]
    rnd = random.Random(seed)
    out = []
    for perm in sorted({tuple(j["g"]["perm"]) for j in js}):
        cand = [j for j in js if tuple(j["g"]["perm"]) == perm]
        out += rnd.sample(cand, 4)
    return res, out


def jobs(tier):
    res = tlc.run_model("Covariance.tla", "Covariance.cfg")
    js = [j for j in tlc.json_lines(res["out"]) if j["kind"] == "relabel"]
    if tier == "quick":
        want = [([2, 1], [1, 1], 0), ([1, 2], [-1, 1], 0), ([1, 2], [1, 1], 1)]
        js = [j for j in js if (j["g"]["perm"], j["g"]["sign"], j["g"]["shift"]) in want]
    return res, js


def run(chk, tier, seed):
    res, js = jobs(tier)
    chk.add_model(res, label="group elements (perm, sign, shift) of the two-field model; inverse/composition facts")
    res3, js3 = jobs3(tier, seed)
    chk.add_model(res3, label="group elements of the three-field model (NF = 3: 6 x 8 x 3); inverse/composition facts")
    # (nucleation temperature, tolerance setting): the tight setting (errTol 1e-4) resolves relabelling effects of a few 1e-4 in vw
    tns = [(0.92, "tight")] if tier == "quick" else [(0.92, "tight"), (0.92, "default"), (0.93, "tight")]
    tns3 = [(0.92, "tight")]
    reps = []
    for tn, st in tns:
        reps.append(dict(model="two", tn=tn, setting=st, g=IDENT))
        reps += [dict(model="two", tn=tn, setting=st, g=j["g"]) for j in js]
    n2 = len(reps)
    for tn, st in tns3:
        reps.append(dict(model="three", tn=tn, setting=st, g=IDENT3))
        reps += [dict(model="three", tn=tn, setting=st, g=j["g"]) for j in js3]
    with Pool(min(16, len(reps))) as pool:
        evs = pool.map(covar.run_one, reps, chunksize=1)

    def mk(evs, tns, js, nf):
        traces, per = [], 1 + len(js)
        for t, (tn, st) in enumerate(tns):
            block = evs[t * per:(t + 1) * per]
            for k, j in enumerate(js):
                g = j["g"]
                traces.append({"id": "relabel{}_tn{}_{}_p{}_s{}_t{}".format("" if nf == 2 else nf, tn, st, "".join(map(str, g["perm"])), "".join("+" if s > 0 else "-" for s in g["sign"]), g["shift"]),
                               "ev": [block[0], block[1 + k]], "cell": dict(tn=tn, setting=st, g=g, nf=nf)})
        return traces

    traces = mk(evs[:n2], tns, js, 2)
    traces3 = mk(evs[n2:], tns3, js3, 3)
    for tr in traces + traces3:
        chk.count(tr["id"])
    chk.sample(traces[0])
    vr = tlc.validate("TraceCovariance.tla", "TraceCovariance_C08.cfg", traces)
    chk.add_validation(vr, traces)
    vr3 = tlc.validate("TraceCovariance.tla", "TraceCovariance_C08_NF3.cfg", traces3)
    chk.add_validation(vr3, traces3)
    chk.extra.update(pipeline_runs=len(reps), group_elements=len(js), group_elements_three_fields=len(js3), checker_cmd="tlc Covariance.tla (NF = 2, 3) ; tlc TraceCovariance.tla (PROP=C08; NF = 2, 3)")
    chk.rule = ("group elements = permutation x sign pattern x translation (3 vectors) of the two-field Z2 polynomial model, all 23 non-identity elements "
                "(quick: one permutation, one reflection, one translation), each compared with the identity run; full pipeline in LTE mode; "
                "plus the three-field model (h, s, x with x following h; harness/models.py ThreeField): 143 non-identity elements from TLC, of which quick runs a 3-cycle with a "
                "reflection and a translation and the transposition (1 3), thorough four elements per permutation (24) drawn with the seed")
    chk.assumptions += ["potential, phase guesses and field scales transformed consistently by the harness (harness/models.py TwoField.perm/sign/shift)",
                        "more than three fields are not covered"]


def replay(chk, path):
    with open(path) as f:
        tr = json.load(f)
    c = tr["cell"]
    nf = c.get("nf", 2)
    evs = [covar.run_one(dict(model=MODEL[nf], tn=c["tn"], setting=c.get("setting", "default"), g=IDENT if nf == 2 else IDENT3)),
           covar.run_one(dict(model=MODEL[nf], tn=c["tn"], setting=c.get("setting", "default"), g=c["g"]))]
    for ev in evs:
        print(json.dumps(ev)[:700])
    new = dict(tr, ev=evs)
    vr = tlc.validate("TraceCovariance.tla", "TraceCovariance_C08.cfg" if nf == 2 else "TraceCovariance_C08_NF3.cfg", [new])
    chk.add_validation(vr, [new])
    return chk.finish()
