"""C13 -- see harness/drivers/boltz.py (measurement) and spec/Boltzmann.tla, TraceBoltzmann.tla (PROP = "C13")."""
import json
from multiprocessing import Pool

from .. import tlc
from . import boltz

LEVEL = "exploration"
PROP = "C13"
KINDS = {"C12": ("solve", "basis", "fd", "fdhist"), "C13": ("moment",)}[PROP]


def jobs(tier, seed):
    res = tlc.run_model("Boltzmann.tla", "Boltzmann.cfg" if tier == "quick" else "BoltzmannLarge.cfg")
    js = [j for j in tlc.json_lines(res["out"]) if j["kind"] in KINDS]
    if tier == "quick":
        keep = []
        for j in js:
            if j["kind"] == "fd" and not (j["N"] == 3 and j["P"] == 1):
                continue
            if j["kind"] == "solve" and j["c"]["P"] == 2 and j["c"]["M"] > 8:
                continue
            if j["kind"] == "moment" and (j["bM"], j["bN"]) != ("Cardinal", "Cardinal") and not (j["scale"] == 1 and j["N"] <= 9 and j["hist"] == "fresh"):
                continue
            if j["kind"] == "moment" and j["hist"] == "rescaled" and not (j["mass"] == 2 and j["N"] <= 9):
                continue
            keep.append(j)
        js = keep
    else:
        js = [j for j in js if not (j["kind"] == "fd" and (j["N"] > 7 or (j["N"] > 3 and j["P"] == 2)))]
    return res, js


def run(chk, tier, seed):
    res, js = jobs(tier, seed)
    chk.add_model(res, label="configuration lattice / job generator")
    with Pool(16) as pool:
        traces = pool.map(boltz.run_job, [(j, seed) for j in js], chunksize=1)
    for tr in traces:
        chk.count(tr["id"])
    chk.sample(traces[0])
    chk.sample(traces[-1])
    vr = tlc.validate("TraceBoltzmann.tla", f"TraceBoltzmann_{PROP}.cfg", traces)
    chk.add_validation(vr, traces)
    kinds = {}
    for j in js:
        kinds[j["kind"]] = kinds.get(j["kind"], 0) + 1
    chk.extra.update(jobs=kinds, checker_cmd=f"tlc Boltzmann.tla ; tlc TraceBoltzmann.tla (PROP={PROP})")
    chk.rule = ("jobs = states of Boltzmann.tla: solve (4 bases x 2 derivative modes x sizes x 1-2 particles x 5 backgrounds, admissible only), "
                "basis cells (4 basis pairs compared), finite-difference chains M=10..80 per background kind, moment cells (odd N 3..15 x 4 momentum "
                "scales x 3 mass profiles x 2 grid classes x 4 basis pairs of the solver x grid constructed at / rescaled to its momentum scale); distinct = distinct job")
    chk.assumptions += ["synthetic diagonally dominant collision operators; tanh backgrounds", "own Chebyshev matrices for comparing deviations across bases",
                        "closed-form Gauss-Chebyshev moments for the identification table"]


def replay(chk, path):
    with open(path) as f:
        tr = json.load(f)
    new = boltz.run_job((tr["job"], chk.seed))
    print(json.dumps(new["ev"][0], indent=1)[:3000])
    vr = tlc.validate("TraceBoltzmann.tla", f"TraceBoltzmann_{PROP}.cfg", [new])
    chk.add_validation(vr, [new])
    return chk.finish()
