"""C17 -- grid coordinate maps are monotone bijections with consistent Jacobians.

GridMap.tla: life cycle of one grid object (construct, rescale position, rescale momentum,
rejected rescale); TLC checks CacheFresh / AllScalesUpdated exhaustively on a reduced menu and
generates rescaling histories (SimGridMap) over the full four-decade menus.  Each history is
replayed on a real Grid / Grid3Scales; after every call the harness measures monotonicity,
centre, slope, Jacobian-vs-derivative, inverse map and bitwise equality with a freshly
constructed grid; TLC judges the recorded trace (TraceGridMap.tla).
"""
import json
import random

import numpy as np

from .. import quant, tlc

LEVEL = "model_checking"

LMENU = [1e-2, 1e-1, 1.0, 10.0, 100.0]
TAILF = [0.9, 1.02, 3.0, 40.0]          # tail = f * L (1/2 + s) / r ; f < 1 is inadmissible
RMENU = [0.3, 0.5, 0.75]
SMENU = [0.05, 0.1, 0.3, 0.6, 0.95]          # the constructor asks for 0 < smoothing, its documentation for "smaller than 1"
CMENU = [0.0, -2.5, 1.75]                # wall centre in units of L
TMENU = [1e-2, 0.1, 1.0, 10.0, 100.0]


def real(p):
    L = LMENU[p["L"]]
    r, s = RMENU[p["r"]], SMENU[p["s"]]
    base = L * (0.5 + s) / r
    return dict(L=L, r=r, s=s, tin=TAILF[p["tin"]] * base, tout=TAILF[p["tout"]] * base, c=CMENU[p["c"]] * L, T=TMENU[p["T"]])


def fresh(WG, kind, q, M, N, spacing):
    if kind == "simple":
        return WG.Grid(M, N, q["L"], q["T"], spacing)
    return WG.Grid3Scales(M, N, q["tin"], q["tout"], q["L"], q["T"], q["r"], q["s"], q["c"], spacing)


ARR = ("chiValues", "rzValues", "rpValues", "xiValues", "pzValues", "ppValues", "dxidchi", "dpzdrz", "dppdrp")


def arrays(g):
    return [np.array(getattr(g, a), copy=True) for a in ARR]


def same(a, b):
    return all(x.shape == y.shape and np.array_equal(x, y) for x, y in zip(a, b))


_GL_X, _GL_W = np.polynomial.legendre.leggauss(40)


def jac_integral_digits(g):
    """'the reported Jacobian is the derivative of the map', tested in integral form: on each of
    24 sub-intervals of [-0.96, 0.96] the Gauss-Legendre integral of the reported Jacobian must
    equal the increment of the map.  (Plain differences of the map lose 6+ digits to rounding.)"""
    edges = np.linspace(-0.96, 0.96, 25)
    worst = 16
    for k in range(3):
        for a, b in zip(edges[:-1], edges[1:]):
            x = 0.5 * (a + b) + 0.5 * (b - a) * _GL_X
            args = [np.zeros_like(x)] * 3
            args = [x if j == k else np.zeros_like(x) for j in range(3)]
            J = g.compactificationDerivatives(*args)[k]
            integral = 0.5 * (b - a) * float(np.sum(_GL_W * J))
            ends = [np.array([a, b]) if j == k else np.zeros(2) for j in range(3)]
            z = g.decompactify(*ends)[k]
            worst = min(worst, quant.digits(abs(integral - (z[1] - z[0])) / abs(z[1] - z[0])))
    return worst


def observe(WG, g, kind, q, M, N, spacing):
    o = {}
    chi, rz, rp = g.getCompactCoordinates()
    xi, pz, pp = g.getCoordinates()
    o["mono"] = bool(np.all(np.diff(xi) > 0) and np.all(np.diff(pz) > 0) and np.all(np.diff(pp) > 0)
                     and np.all(np.isfinite(xi)) and np.all(np.isfinite(pz)) and np.all(np.isfinite(pp)))
    z0 = g.decompactify(np.array(0.0), np.array(0.0), np.array(-1.0))
    centre = q["c"] if kind == "three" else 0.0
    o["dCentre"] = min(quant.digits(abs(float(z0[0]) - centre) / q["L"]), quant.digits(abs(float(z0[1])) / q["T"]),
                       quant.digits(abs(float(z0[2])) / q["T"]))
    j0 = g.compactificationDerivatives(np.array(0.0), np.array(0.0), np.array(0.0))
    o["dSlope0"] = quant.reldigits(float(j0[0]), q["L"] / q["r"]) if kind == "three" else 16
    # Jacobian at interior sample points (grid points and a few extra), away from the ends where
    # the map diverges and differences lose accuracy
    o["dJac"] = jac_integral_digits(g)
    cached = g.getCompactificationDerivatives()
    direct = g.compactificationDerivatives(chi, rz, rp)
    if not all(np.array_equal(a, b) for a, b in zip(cached, direct)):
        o["dJac"] = -1
    back = g.compactify(xi, pz, pp)
    o["dInvPosition"] = quant.digits(np.max(np.abs(np.asarray(back[0]) - chi)))
    o["dInvMomentum"] = min(quant.digits(np.max(np.abs(np.asarray(back[1]) - rz))), quant.digits(np.max(np.abs(np.asarray(back[2]) - rp))))
    f = fresh(WG, kind, q, M, N, spacing)
    o["sameAsFresh"] = bool(same(arrays(g), arrays(f)))
    o["pfSame"] = bool(g.positionFalloff == f.positionFalloff and g.momentumFalloffT == f.momentumFalloffT)
    if kind == "three":
        o["pfSame"] = bool(o["pfSame"] and all(getattr(g, a) == getattr(f, a) for a in
                           ("tailLengthInside", "tailLengthOutside", "wallThickness", "ratioPointsWall", "smoothing", "wallCenter", "aIn", "aOut")))
    return o


def replay_behaviour(WG, beh, M, N):
    evs = []
    g = None
    kind = spacing = None
    cur = None
    for op in beh:
        if op["op"] == "Construct":
            kind, spacing, cur = op["kind"], op["spacing"], dict(op["p"])
            q = real(cur)
            ev = {"e": "Construct", "kind": kind, "p": op["p"], "spacing": spacing}
            try:
                g = fresh(WG, kind, q, M, N, spacing)
                ev["out"] = "ok"
                ev["obs"] = observe(WG, g, kind, q, M, N, spacing)
            except Exception as ex:
                ev["out"] = type(ex).__name__
                ev["obs"] = {}
        elif op["op"] == "ChangePosition":
            p = op["p"]
            new = dict(cur, L=p["L"], tin=p["tin"], tout=p["tout"], c=p["c"])
            q = real(new)
            before = arrays(g)
            attrs = dict(vars(g))
            ev = {"e": "ChangePosition", "p": p}
            try:
                if kind == "simple":
                    g.changePositionFalloffScale(q["L"])
                else:
                    g.changePositionFalloffScale(q["tin"], q["tout"], q["L"], q["c"])
                ev["out"] = "ok"
                cur = new
                ev["obs"] = observe(WG, g, kind, q, M, N, spacing)
            except Exception as ex:
                ev["out"] = type(ex).__name__
                unchanged = same(before, arrays(g)) and all(
                    (np.array_equal(v, attrs[k]) if isinstance(v, np.ndarray) else v == attrs[k]) for k, v in vars(g).items())
                ev["obs"] = {"unchanged": bool(unchanged)}
        elif op["op"] == "ChangeMomentum":
            cur = dict(cur, T=op["T"])
            q = real(cur)
            ev = {"e": "ChangeMomentum", "T": op["T"]}
            try:
                g.changeMomentumFalloffScale(q["T"])
                ev["out"] = "ok"
                ev["obs"] = observe(WG, g, kind, q, M, N, spacing)
            except Exception as ex:
                ev["out"] = type(ex).__name__
                ev["obs"] = {}
        evs.append(ev)
    return evs, kind


def run(chk, tier, seed):
    import WallGo as WG

    res = tlc.run_model("GridMap.tla", "GridMap.cfg", coverage=(tier == "thorough"))
    chk.add_model(res, label="exhaustive on reduced menus: CacheFresh, AllScalesUpdated, rejected calls leave the state")
    num = 400 if tier == "quick" else 4000
    b = tlc.behaviours("SimGridMap.tla", "SimGridMap.cfg", simulate=num, depth=14, seed=seed)
    behs = b["behaviours"]
    traces = []
    sizes = [(20, 5), (13, 7), (40, 11), (7, 3)]
    for i, beh in enumerate(behs):
        M, N = sizes[i % len(sizes)]
        evs, kind = replay_behaviour(WG, beh, M, N)
        traces.append({"id": f"hist{i}_{kind}_M{M}N{N}", "ev": evs, "cell": {"kind": kind, "M": M, "N": N}, "behaviour": beh})
        chk.count(json.dumps(beh, sort_keys=True))
    chk.sample(traces[0])
    vr = tlc.validate("TraceGridMap.tla", "TraceGridMap.cfg", traces)
    chk.add_validation(vr, traces)
    chk.extra.update(histories=len(traces), generator_states=b["generated"],
                     checker_cmd="tlc GridMap.tla ; tlc -simulate SimGridMap.tla ; tlc TraceGridMap.tla")
    chk.rule = ("histories = TLC-simulated call sequences (Construct, then 4 rescaling calls incl. inadmissible ones) over menus of 5 wall "
                "thicknesses x 4 tail factors^2 x 3 ratios x 3 smoothings x 3 centres x 5 momentum scales, both grid kinds, both spacings; "
                "distinct = distinct history")
    chk.assumptions += ["derivative oracle in integral form: 40-point Gauss-Legendre integral of the reported Jacobian over 24 sub-intervals of [-0.96,0.96] vs increments of decompactify"]


def replay(chk, path):
    import WallGo as WG

    with open(path) as f:
        tr = json.load(f)
    evs, kind = replay_behaviour(WG, tr["behaviour"], tr["cell"]["M"], tr["cell"]["N"])
    for ev in evs:
        print(json.dumps(ev)[:600])
    tr = dict(tr, ev=evs)
    vr = tlc.validate("TraceGridMap.tla", "TraceGridMap.cfg", [tr])
    chk.add_validation(vr, [tr])
    return chk.finish()
