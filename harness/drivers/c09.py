"""C09 -- in a uniform plasma the wall pressure equals the free-energy difference (see wallprofile.py)."""
import json
from multiprocessing import Pool

from .. import tlc
from . import wallprofile as wpf

LEVEL = "exploration"


def cells(tier):
    out = []
    Ms = [40, 80] if tier == "quick" else [40, 60, 80, 120]
    ratios = [1 / 3, 1.0, 3.0] if tier == "quick" else [1 / 3, 0.5, 1.0, 2.0, 3.0]
    offs = [-2.0, 0.0, 1.0] if tier == "quick" else [-2.0, -1.0, 0.0, 1.0, 2.0]
    widths = [5.0] if tier == "quick" else [3.0, 5.0, 10.0]
    Ts = [1.0, 1.03] if tier == "quick" else [0.97, 1.0, 1.03, 1.06]
    # one group per (model, M) shares a manager; traces are regrouped per shape with M increasing
    for mdl, tn in (("one", 2.1), ("two", 0.92)):
        for M in Ms:
            g = []
            for T in Ts:
                for w in widths:
                    for r in (ratios if mdl == "two" else [1.0]):
                        for o in (offs if mdl == "two" else [0.0]):
                            g.append(dict(model=mdl, tn=tn, M=M, T=T, width=w, ratio=r, offset=o))
            out.append(("pressure", g))
    return out


def run(chk, tier, seed):
    chk.add_model(tlc.run_model("WallProfile.tla", "WallProfile.cfg"), label="shared design model of one pressure evaluation")
    groups = cells(tier)
    with Pool(min(16, len(groups))) as pool:
        res = pool.map(wpf.run_group, groups, chunksize=1)
    flat = [t for g in res for t in g]
    shapes = {}
    for t in flat:
        c = t["cell"]
        shapes.setdefault((c["model"], c["tn"], c["T"], c["width"], c["ratio"], c["offset"]), []).append(t)
    traces = []
    for k, ts in sorted(shapes.items(), key=str):
        ts = sorted(ts, key=lambda t: t["cell"]["M"])
        traces.append({"id": "shape_{}_tn{}_T{}_w{}_r{}_o{}".format(*k), "ev": [t["ev"][0] for t in ts], "cell": dict(ts[0]["cell"], Ms=[t["cell"]["M"] for t in ts])})
    for tr in traces:
        for ev in tr["ev"]:
            chk.count((tr["id"], ev["M"]))
    chk.sample(traces[0])
    vr = tlc.validate("TraceWallProfile.tla", "TraceWallProfile_C09.cfg", traces)
    chk.add_validation(vr, traces)
    worst = {}
    for tr in traces:
        for e in tr["ev"]:
            worst[e["M"]] = min(worst.get(e["M"], 16), e["dP"])
    chk.extra.update(shapes=len(traces), worst_digits_by_M=worst, checker_cmd="tlc WallProfile.tla ; tlc TraceWallProfile.tla (PROP=C09)")
    chk.rule = ("shapes = polynomial model x temperature at which both phases exist x wall width x width ratio in [1/3,3] x offset in [-2,2] x "
                "spatial grid size M in {40,60,80,120}; pressure from EOM._intermediatePressureResults with constant temperature / velocity profiles "
                "and no out-of-equilibrium particles vs V(low) - V(high)")
    chk.assumptions += ["closed-form potential of the polynomial models", "4th-order finite differences of wallProfile's own field values for the gradient check"]


def replay(chk, path):
    with open(path) as f:
        tr = json.load(f)
    evs = []
    for M in tr["cell"]["Ms"]:
        evs.append(wpf.pressure_event(dict(tr["cell"], M=M))["ev"][0])
        print(json.dumps(evs[-1]))
    new = dict(tr, ev=evs)
    vr = tlc.validate("TraceWallProfile.tla", "TraceWallProfile_C09.cfg", [new])
    chk.add_validation(vr, [new])
    return chk.finish()
