"""C04 -- the plasma profile inside the wall conserves energy-momentum pointwise (see wallprofile.py)."""
import json
from multiprocessing import Pool

from .. import tlc
from . import wallprofile as wpf

LEVEL = "exploration"


def cells(tier):
    out = []
    # last entry: unit factor -- the same model with temperatures of order 2e-3 / 2e5 in the user's units (a tolerance on the
    # temperature that is absolute in those units shows up as a residual there and nowhere else)
    mods = [("one", 2.1, 20, 0, 1.0), ("two", 0.92, 20, 0, 1.0), ("one", 2.15, 20, 1, 1.0), ("one", 2.1, 20, 0, 1e-5)] if tier == "quick" else \
           [("one", 2.1, 20, 0, 1.0), ("one", 2.15, 30, 0, 1.0), ("two", 0.92, 20, 0, 1.0), ("two", 0.92, 30, 0, 1.0), ("one", 2.15, 20, 1, 1.0), ("two", 0.92, 20, 2, 1.0),
            ("one", 2.1, 20, 0, 1e-5), ("one", 2.15, 20, 1, 1e-4), ("two", 0.92, 20, 0, 1e-4), ("one", 2.1, 20, 0, 1e3)]
    ratios = [1.0, 2.5] if tier == "quick" else [1 / 3, 0.6, 1.0, 1.7, 3.0]
    offs = [0.0, 1.5] if tier == "quick" else [-2.0, -0.7, 0.0, 0.7, 2.0]
    vfs = [0.5, 0.9] if tier == "quick" else [0.2, 0.5, 0.8, 0.95]
    for mdl, tn, M, P, u in mods:
        g = []
        for br in ("defl", "hyb", "det"):
            for vf in vfs:
                for r in (ratios if mdl == "two" else [1.0]):
                    for o in (offs if mdl == "two" else [0.0]):
                        for mom in ((False, True) if P else (False,)):
                            if u != 1.0 and mdl == "two" and (r, o) not in ((1.0, 0.0), (ratios[-1], offs[-1])):
                                continue
                            g.append(dict(model=mdl, tn=tn, M=M, particles=P, branch=br, vfrac=vf, ratio=r, offset=o, moments=mom, **({} if u == 1.0 else {"u": u})))
        out.append(("profile", g))
    return out


def run(chk, tier, seed):
    chk.add_model(tlc.run_model("WallProfile.tla", "WallProfile.cfg"), label="per-point outcomes: success iff no point gave up; root side by branch")
    groups = cells(tier)
    with Pool(min(16, len(groups))) as pool:
        res = pool.map(wpf.run_group, groups, chunksize=1)
    traces = [t for g in res for t in g]
    for tr in traces:
        chk.count(tr["id"])
    chk.sample(dict(traces[0], ev=[dict(traces[0]["ev"][0], pts=traces[0]["ev"][0].get("pts", [])[:4])]))
    vr = tlc.validate("TraceWallProfile.tla", "TraceWallProfile_C04.cfg", traces)
    chk.add_validation(vr, traces)
    kinds = {}
    for tr in traces:
        for p in tr["ev"][0].get("pts", []):
            kinds[p["kind"]] = kinds.get(p["kind"], 0) + 1
    far = sum(1 for tr in traces if tr["ev"][0].get("farLow")) + sum(1 for tr in traces if tr["ev"][0].get("farHigh"))
    chk.extra.update(profiles=len(traces), points_by_outcome=kinds, far_field_ends_checked=far, checker_cmd="tlc WallProfile.tla ; tlc TraceWallProfile.tla (PROP=C04)")
    chk.rule = ("profiles = polynomial model (analytic T dependence; also in units where T ~ 2e-3, 2e-2 and 2e5) x grid size x branch (deflagration / hybrid / detonation) x wall velocity within the "
                "branch x width ratio <= 3 x |offset| <= 2 x supplied out-of-equilibrium moments (zero, or smooth ~1e-3 of the equilibrium enthalpy); "
                "T30, T33 rebuilt by the harness from T, v, analytic V and dV/dT, the field gradient and boosted direct moment integrals")
    chk.assumptions += ["analytic dV/dT of the polynomial models", "boost algebra for the supplied moments (checked against deltaToTmunu in C13)"]


def replay(chk, path):
    with open(path) as f:
        tr = json.load(f)
    new = wpf.profile_event(tr["cell"])
    print(json.dumps(new["ev"][0])[:3000])
    vr = tlc.validate("TraceWallProfile.tla", "TraceWallProfile_C04.cfg", [new])
    chk.add_validation(vr, [new])
    return chk.finish()
