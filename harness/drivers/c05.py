"""C05 -- see harness/drivers/hydro.py (shared measurement) and spec/TraceHydro.tla (PROP = "C05")."""
from . import hydrocheck

LEVEL = hydrocheck.LEVELS["C05"]


def run(chk, tier, seed):
    hydrocheck.run(chk, tier, seed, "C05")


def replay(chk, path):
    return hydrocheck.replay(chk, path, "C05")
