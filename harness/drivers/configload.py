"""Config.loadConfigFromFile as a key-by-key state update (ConfigLoad.tla / TraceConfigLoad.tla).

Files are written as real .ini files and loaded into real WallGo.Config objects; after every load the whole configuration
is read back and projected onto the abstract values of the specification ("d" default, "a"/"b" two admissible values,
"t" free text).  Sequences of loads on one object; a fresh object afterwards must have the defaults.
"""
import os
import tempfile

import numpy as np

from .. import tlc

ORDER = [("Grid", "spatialGridSize", "int"), ("Grid", "momentumGridSize", "int"), ("Grid", "ratioPointsWall", "float"), ("Grid", "smoothing", "float"),
         ("EquationOfMotion", "errTol", "float"), ("EquationOfMotion", "pressRelErrTol", "float"), ("EquationOfMotion", "maxIterations", "int"),
         ("EquationOfMotion", "conserveEnergyMomentum", "bool"), ("EquationOfMotion", "wallThicknessLowerBound", "float"),
         ("EquationOfMotion", "wallThicknessUpperBound", "float"), ("EquationOfMotion", "wallOffsetLowerBound", "float"),
         ("EquationOfMotion", "wallOffsetUpperBound", "float"), ("EquationOfMotion", "vwMaxDeton", "float"), ("EquationOfMotion", "nbrPointsMinDeton", "int"),
         ("EquationOfMotion", "nbrPointsMaxDeton", "int"), ("EquationOfMotion", "overshootProbDeton", "float"),
         ("Hydrodynamics", "tmin", "float"), ("Hydrodynamics", "tmax", "float"), ("Hydrodynamics", "relativeTol", "float"), ("Hydrodynamics", "absoluteTol", "float"),
         ("Thermodynamics", "tmin", "float"), ("Thermodynamics", "tmax", "float"), ("Thermodynamics", "phaseTracerTol", "float"),
         ("Thermodynamics", "phaseTracerFirstStep", "optfloat"),
         ("BoltzmannSolver", "collisionMultiplier", "float"), ("BoltzmannSolver", "basisM", "str"), ("BoltzmannSolver", "basisN", "str")]
UNKNOWN = ["Grid.nosuchkey", "NoSuchSection.x", "EquationOfMotion.errtol", "Thermodynamics.smoothing"]
CONCRETE = {"int": {"a": "7", "b": "13"}, "float": {"a": "0.25", "b": "3.5"}, "bool": {"a": "yes", "b": "off"},
            "optfloat": {"a": "0.25", "b": "3.5"}, "str": {"a": "Cardinal2", "b": "Chebyshev2"}}
VALUE = {"int": {"a": 7, "b": 13}, "float": {"a": 0.25, "b": 3.5}, "bool": {"a": True, "b": False},
         "optfloat": {"a": 0.25, "b": 3.5}, "str": {"a": "Cardinal2", "b": "Chebyshev2"}}


def read_state(cfg, defaults):
    """all 27 keys of a Config as python values, in the code's reading order"""
    g, e, h, t, b = cfg.configGrid, cfg.configEOM, cfg.configHydrodynamics, cfg.configThermodynamics, cfg.configBoltzmannSolver
    vals = [g.spatialGridSize, g.momentumGridSize, g.ratioPointsWall, g.smoothing,
            e.errTol, e.pressRelErrTol, e.maxIterations, e.conserveEnergyMomentum, e.wallThicknessBounds[0], e.wallThicknessBounds[1],
            e.wallOffsetBounds[0], e.wallOffsetBounds[1], e.vwMaxDeton, e.nbrPointsMinDeton, e.nbrPointsMaxDeton, e.overshootProbDeton,
            h.tmin, h.tmax, h.relativeTol, h.absoluteTol, t.tmin, t.tmax, t.phaseTracerTol, t.phaseTracerFirstStep,
            b.collisionMultiplier, b.basisM, b.basisN]
    return vals


def project(vals, defaults):
    out = []
    for (sec, key, ty), v, d in zip(ORDER, vals, defaults):
        if ty == "bool":
            out.append("a" if v is True else ("b" if v is False else "?"))
        elif type(v) is type(d) and v == d:
            out.append("d")
        elif type(v) is type(VALUE[ty]["a"]) and v == VALUE[ty]["a"]:
            out.append("a")
        elif type(v) is type(VALUE[ty]["b"]) and v == VALUE[ty]["b"]:
            out.append("b")
        elif ty == "str" and isinstance(v, str):
            out.append("t")
        else:
            out.append("?")
    return out


def write_ini(path, f, rng):
    """f: dict 'Section.key' -> written token; sections in random order"""
    secs = {}
    for name, w in f.items():
        sec, key = name.split(".")
        ty = next((t for (s, k, t) in ORDER if s == sec and k == key), "float")
        text = CONCRETE[ty][w] if w in ("a", "b") else ("None" if w == "none" else "no-such-value")
        secs.setdefault(sec, []).append((key, text))
    names = list(secs)
    rng.shuffle(names)
    with open(path, "w") as fh:
        for sec in names:
            fh.write(f"[{sec}]\n")
            items = secs[sec]
            rng.shuffle(items)
            for k, v in items:
                fh.write(f"{k} = {v}\n")
            fh.write("\n")


def run_sequences(tier, seed):
    import WallGo

    rng = np.random.default_rng(seed)
    defaults = read_state(WallGo.Config(), None)
    names = [f"{s}.{k}" for (s, k, t) in ORDER]
    tmp = tempfile.mkdtemp(prefix="cfg.", dir=tlc.scratch())
    traces = []
    nseq = 120 if tier == "quick" else 1500
    for q in range(nseq):
        cfg = WallGo.Config()
        evs = []
        for step in range(int(rng.integers(1, 5))):
            dens = float(rng.choice([0.08, 0.3, 0.7]))
            f = {}
            for n in names + UNKNOWN:
                if rng.random() < dens:
                    f[n] = str(rng.choice(["a", "b", "a", "b", "none", "bad"], p=[0.3, 0.3, 0.15, 0.15, 0.05, 0.05]))
            path = os.path.join(tmp, f"c{q}_{step}.ini")
            write_ini(path, f, rng)
            try:
                cfg.loadConfigFromFile(path)
                out = "ok"
            except Exception as ex:
                out = type(ex).__name__
            os.remove(path)
            evs.append({"e": "Load", "keys": list(f.keys()), "vals": list(f.values()), "out": out, "st": project(read_state(cfg, defaults), defaults)})
        evs.append({"e": "Fresh", "allDefault": project(read_state(WallGo.Config(), defaults), defaults) == ["a" if t == "bool" else "d" for (_s, _k, t) in ORDER]})
        traces.append({"id": f"cfgseq{q}", "ev": evs, "cell": {"kind": "configload", "q": q}})
    return traces
