"""Drive the whole WallGo pipeline (WallGoManager) on the closed-form polynomial models of
harness/models.py, optionally with out-of-equilibrium particles and synthetic collision files.
Used by C01 C04 C07 C08 C09.
"""
import logging
import math
import os
import warnings

import numpy as np

from . import models


def make_wallgo_model(m, nparticles=0):
    """GenericModel wrapping a harness model (fresh subclass per call: the particle list is a class attribute)"""
    import WallGo

    pot = models.make_potential(m)

    class Model(WallGo.GenericModel):
        @property
        def fieldCount(self):
            return m.nf

        def getEffectivePotential(self):
            return pot

    mod = Model()
    mod.clearParticles()
    ys = [0.9, 0.6]
    for i in range(nparticles):
        y = ys[i]
        if m.nf == 1:
            msq = (lambda yy: (lambda f: 0.5 * yy * yy * f.getField(0) ** 2))(y)
            dmsq = (lambda yy: (lambda f: np.transpose([yy * yy * f.getField(0)])))(y)
        else:
            # mass from the first CANONICAL field (h), expressed in the model's own field labels
            j = [k for k in range(m.nf) if m.perm[k] == 0][0]
            sj, tj = m.sign[j], m.shift[j]
            msq = (lambda yy: (lambda f: 0.5 * yy * yy * ((f.getField(j) - tj) * sj) ** 2))(y)

            def dmsq(f, yy=y):
                out = np.zeros(np.shape(f.getField(0)) + (m.nf,))
                out[..., j] = yy * yy * (f.getField(j) - tj)
                return out

        mod.addParticle(WallGo.Particle(["top", "W"][i], i, msq, dmsq, "Fermion" if i == 0 else "Boson", [12, 9][i]))
    return mod


def phases(m, Tn):
    """(high-T phase location, low-T phase location) at Tn as numpy arrays"""
    if m.nf == 1:
        return m.minimum("sym", np.array(Tn)), m.minimum("brk", np.array(Tn))
    return m.minimum("S", np.array(Tn)), m.minimum("H", np.array(Tn))


def tref(m):
    return m.T0 if m.nf == 1 else math.sqrt(m.muh2 / m.ch)


def build_manager(m, tn_ratio, M=20, N=5, errTol=1e-3, maxIterations=20, pressRelErrTol=0.1, tracerTol=1e-6,
                  nparticles=0, collision_dir=None, tvs=0.01, conserve=True, verbose=False):
    """registerModel + setupThermodynamicsHydrodynamics; returns (manager, Tn)"""
    import WallGo

    warnings.filterwarnings("ignore")
    Tn = tn_ratio * tref(m)
    man = WallGo.WallGoManager()
    man.setVerbosity(logging.ERROR if not verbose else logging.INFO)
    man.config.configGrid.spatialGridSize = M
    man.config.configGrid.momentumGridSize = N
    man.config.configEOM.errTol = errTol
    man.config.configEOM.maxIterations = maxIterations
    man.config.configEOM.pressRelErrTol = pressRelErrTol
    man.config.configEOM.conserveEnergyMomentum = conserve
    man.config.configThermodynamics.phaseTracerTol = tracerTol
    man.registerModel(make_wallgo_model(m, nparticles))
    hi, lo = phases(m, Tn)
    fs = m.field_scale()
    ph = WallGo.PhaseInfo(temperature=Tn, phaseLocation1=WallGo.Fields(tuple(np.ravel(hi))), phaseLocation2=WallGo.Fields(tuple(np.ravel(lo))))
    scales = WallGo.VeffDerivativeSettings(temperatureVariationScale=tvs * tref(m), fieldValueVariationScale=[0.3 * fs] * m.nf)
    man.setupThermodynamicsHydrodynamics(ph, scales)
    if collision_dir is not None:
        man.setPathToCollisionData(collision_dir)
    return man, Tn


def write_collisions(directory, names, N, seed=0, strength=1.0):
    """synthetic, diagonally dominant collision files (Chebyshev momentum basis) for the given particle names"""
    import h5py

    rng = np.random.default_rng(seed)
    os.makedirs(directory, exist_ok=True)
    n = N - 1
    for a in names:
        for b in names:
            arr = 0.02 * rng.normal(size=(n, n, n, n))
            if a == b:
                arr += np.eye(n * n).reshape(n, n, n, n) * (1.0 + 0.2 * rng.random())
            arr *= strength
            with h5py.File(os.path.join(directory, f"collisions_{a}_{b}.hdf5"), "w") as f:
                md = f.create_group("metadata")
                md.attrs["Basis Size"] = N
                md.attrs["Basis Type"] = "Cardinal"
                f.create_dataset(f"{a}, {b}", data=arr)
