"""Per-cell time limit for drivers (a tracer or solver that no longer returns is reported, not waited for)."""
import functools
import signal


class CellTimeout(Exception):
    pass


def limited(seconds):
    def deco(fn):
        @functools.wraps(fn)
        def wrapper(*a, **kw):
            def handler(signum, frame):
                raise CellTimeout(f"no result within {seconds} s")

            old = signal.signal(signal.SIGALRM, handler)
            signal.alarm(int(seconds))
            try:
                return fn(*a, **kw)
            finally:
                signal.alarm(0)
                signal.signal(signal.SIGALRM, old)
        return wrapper
    return deco


def map_with_loss(pool, fn, items, lost, per_item=400.0, slack=240.0, procs=16):
    """pool.map that cannot hang: a task whose worker died (hard crash inside a numerical library, os._exit, ...) never
    returns from multiprocessing.Pool.map.  Every item is submitted on its own; results are awaited until a deadline that
    allows every item its time limit; an item without a result by then is replaced by lost(item), a trace whose single
    event no action of the trace specification accepts -- so TLC rejects it (exit 1), instead of the check waiting forever."""
    import time

    handles = [pool.apply_async(fn, (it,)) for it in items]
    deadline = time.time() + slack + per_item * max(1.0, len(items) / float(procs)) * 0.25 + per_item
    out = []
    for it, h in zip(items, handles):
        try:
            out.append(h.get(timeout=max(1.0, deadline - time.time())))
        except Exception as ex:           # multiprocessing.TimeoutError, or the worker's own exception
            out.append(lost(it, type(ex).__name__))
    return out
