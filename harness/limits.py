"""Per-cell time limit for drivers (a tracer or solver that no longer returns is reported, not waited for)."""
import functools
import signal


class CellTimeout(Exception):
    pass


def limited(seconds):
    def deco(fn):
        @functools.wraps(fn)
        def wrapper(*a, **kw):
            def handler(signum, frame):
                raise CellTimeout(f"no result within {seconds} s")

            old = signal.signal(signal.SIGALRM, handler)
            signal.alarm(int(seconds))
            try:
                return fn(*a, **kw)
            finally:
                signal.alarm(0)
                signal.signal(signal.SIGALRM, old)
        return wrapper
    return deco
