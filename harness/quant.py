"""Quantisation of measured numbers into the bounded integers the TLA+ modules judge.

digits(err)        digit class  d = min(16, floor(-log10(max(err, 1e-16))));  NaN/inf -> -1
reldigits(a, b)    digit class of |a-b| / max(|a|,|b|,floor)
ticks(x, unit)     round(x / unit) as int, must stay below 2^31
sign(x, eps)       -1 / 0 / 1
"""
import math

import numpy as np

LIM = 2**31 - 1


def digits(err) -> int:
    try:
        e = float(np.max(np.abs(err)))
    except Exception:
        return -1
    if not math.isfinite(e):
        return -1
    if e <= 1e-16:
        return 16
    d = int(math.floor(-math.log10(e) + 1e-12))
    return max(-1, min(16, d))


def reldigits(a, b, floor=0.0) -> int:
    a = np.asarray(a, dtype=float)
    b = np.asarray(b, dtype=float)
    if a.shape != b.shape:
        try:
            a, b = np.broadcast_arrays(a, b)
        except ValueError:
            return -1
    if not (np.all(np.isfinite(a)) and np.all(np.isfinite(b))):
        return -1
    if a.size == 0:
        return 16
    scale = max(float(np.max(np.abs(a))), float(np.max(np.abs(b))), floor, 1e-300)
    return digits(float(np.max(np.abs(a - b))) / scale)


def ticks(x, unit) -> int:
    v = float(x) / unit
    if not math.isfinite(v):
        return LIM
    r = int(round(v))
    return max(-LIM, min(LIM, r))


def sign(x, eps=0.0) -> int:
    x = float(x)
    if not math.isfinite(x):
        return 2
    return 1 if x > eps else (-1 if x < -eps else 0)
