"""Thin runner around TLC.

Three uses:
  * run_model      -- exhaustive (or -simulate) check of a design model + cfg
  * validate       -- batched trace validation (TraceLib.tla protocol)
  * behaviours     -- get behaviours out of TLC (design model with the `act`
                      history wrapper) for replay into the implementation

All verdicts of the framework come from the return values of these functions;
a TLC failure that is neither "ok" nor a property violation raises
MachineryError (exit status 2 of ./check).
"""
from __future__ import annotations

import json
import os
import re
import shutil
import subprocess
import tempfile
import time

SPEC_DIR = os.path.join(os.path.dirname(os.path.dirname(os.path.abspath(__file__))), "spec")
JAR = "/opt/veriftools/tla/tla2tools.jar:/opt/veriftools/tla/CommunityModules-deps.jar"


class MachineryError(RuntimeError):
    pass


_scratch = None


def scratch() -> str:
    global _scratch
    if _scratch is None:
        base = os.environ.get("TMPDIR", "/tmp")
        _scratch = tempfile.mkdtemp(prefix="wallgo-verif.", dir=base)
        import atexit

        atexit.register(lambda: shutil.rmtree(_scratch, ignore_errors=True))
    return _scratch


def _java(args, env=None, timeout=3600, heap="6g", dfs=False):
    cmd = ["java", "-XX:+UseParallelGC", f"-Xmx{heap}"]
    if dfs:
        cmd.append("-Dtlc2.tool.queue.IStateQueue=StateDeque")
    cmd += ["-cp", JAR, "tlc2.TLC"] + args
    e = dict(os.environ)
    if env:
        e.update(env)
    t0 = time.time()
    try:
        p = subprocess.run(cmd, cwd=SPEC_DIR, env=e, capture_output=True, text=True, timeout=timeout)
    except subprocess.TimeoutExpired as ex:
        raise MachineryError(f"TLC timeout after {timeout}s: {' '.join(args)}") from ex
    return p.returncode, p.stdout + p.stderr, time.time() - t0


_RE_STATES = re.compile(r"(\d+) states generated, (\d+) distinct states found")
_RE_DEPTH = re.compile(r"depth of the complete state graph search is (\d+)")
_RE_INV = re.compile(r"Error: Invariant (\w+) is violated")
_RE_ACTP = re.compile(r"Error: Action property (\w+) is violated")
_RE_TID = re.compile(r"/\\ tid = (\d+)")


def _counts(out):
    m = _RE_STATES.findall(out)
    gen, dist = (int(m[-1][0]), int(m[-1][1])) if m else (0, 0)
    d = _RE_DEPTH.findall(out)
    return gen, dist, (int(d[-1]) if d else 0)


def _fatal(out):
    """True when TLC stopped for a reason that is not a property verdict."""
    bad = [
        "Parsing or semantic analysis failed",
        "TLC threw an unexpected exception",
        "Error: Evaluating",
        "java.lang.",
        "Error: The configuration file",
        "Error: TLC encountered",
        "Error: In evaluation",
        "Error: Attempted",
        "Error: The ASSUME",
        "Error: Assumption",
        "was not found",
        "Error: The operator",
        "Error: The first argument",
        "Error: The second argument",
        "Error: Deadlock reached",
    ]
    return [b for b in bad if b in out]


def run_model(spec, cfg, workers=16, timeout=1800, simulate=None, depth=None, seed=None,
              coverage=False, extra_env=None, heap="6g", dump=False):
    """Check design model `spec`.tla with `cfg`. Returns dict with
    ok, generated, distinct, depth, violated (list of property names), out."""
    md = tempfile.mkdtemp(prefix="md.", dir=scratch())
    args = ["-workers", str(workers), "-metadir", md, "-noGenerateSpecTE", "-config", cfg]
    if coverage:
        args += ["-coverage", "1"]
    if simulate is not None:
        args += ["-simulate", f"num={simulate}"]
        if depth:
            args += ["-depth", str(depth)]
    if seed is not None:
        args += ["-seed", str(seed)]
    dumpfile = None
    if dump:
        dumpfile = os.path.join(scratch(), f"dump_{os.path.basename(cfg)}_{os.getpid()}")
        args += ["-dump", dumpfile]
    args.append(spec)
    rc, out, dt = _java(args, env=extra_env, timeout=timeout, heap=heap)
    shutil.rmtree(md, ignore_errors=True)
    dumptext = None
    if dump:
        fn = dumpfile + ".dump" if os.path.exists(dumpfile + ".dump") else dumpfile
        with open(fn) as f:
            dumptext = f.read()
        os.remove(fn)
    gen, dist, dep = _counts(out)
    violated = _RE_INV.findall(out) + _RE_ACTP.findall(out)
    if "Temporal properties were violated" in out:
        violated.append("TemporalProperty")
    fatal = _fatal(out)
    if fatal and not violated:
        raise MachineryError(f"TLC failed on {spec}/{cfg}: {fatal}\n{out[-3000:]}")
    ok = (not violated) and ("Model checking completed. No error has been found" in out
                             or (simulate is not None and "Error:" not in out))
    if not ok and not violated:
        raise MachineryError(f"TLC gave no verdict on {spec}/{cfg}\n{out[-3000:]}")
    cov = None
    if coverage:
        cov = parse_coverage(out)
    return dict(ok=ok, generated=gen, distinct=dist, depth=dep, violated=violated, out=out,
                wall_s=dt, coverage=cov, spec=spec, cfg=cfg, dump=dumptext)


def json_lines(out):
    """JSON values printed by PrintT(ToJson(x)) (one TLA+ string per line), de-duplicated."""
    seen = {}
    for line in out.splitlines():
        line = line.strip()
        if len(line) > 3 and line[0] == '"' and line[-1] == '"' and line[1] in "[{":
            try:
                s = json.loads(line)
                seen.setdefault(s, None)
            except Exception:
                continue
    return [json.loads(s) for s in seen]


_RE_COV = re.compile(r"<(\w+) line \d+, col \d+ to line \d+, col \d+ of module (\w+)>: (\d+):(\d+)")


def parse_coverage(out):
    cov = {}
    for name, mod, a, b in _RE_COV.findall(out):
        cov[name] = cov.get(name, 0) + int(b)
    return cov


_RE_REJ = re.compile(r'<<\s*"REJECTED",\s*(\d+),\s*"matched",\s*(-?\d+),\s*"of",\s*(\d+)\s*>>')


def validate(spec, cfg, traces, timeout=3600, extra_env=None, heap="6g", dfs=False, keep=None):
    """Validate a batch of traces (list of {"id":..,"ev":[..]}) against trace spec.
    Returns dict: rejected [(index0, id, matched, of, nextevent)], inv [(name, index0, id)],
    generated, distinct."""
    if not traces:
        return dict(rejected=[], inv=[], generated=0, distinct=0, n=0, wall_s=0.0, out="")
    d = tempfile.mkdtemp(prefix="tv.", dir=scratch())
    tf = os.path.join(d, "batch.json")
    with open(tf, "w") as f:
        json.dump([{"id": t["id"], "ev": t["ev"]} for t in traces], f)
    env = {"TRACE_FILE": tf}
    if extra_env:
        env.update(extra_env)
    args = ["-workers", "1", "-continue", "-metadir", os.path.join(d, "md"), "-noGenerateSpecTE",
            "-config", cfg, spec]
    rc, out, dt = _java(args, env=env, timeout=timeout, heap=heap, dfs=dfs)
    if keep:
        shutil.copy(tf, keep)
    shutil.rmtree(d, ignore_errors=True)
    gen, dist, _ = _counts(out)
    rejected = []
    for m in _RE_REJ.finditer(out):
        k, matched, of = int(m.group(1)) - 1, int(m.group(2)), int(m.group(3))
        nxt = traces[k]["ev"][matched] if 0 <= matched < len(traces[k]["ev"]) else "-"
        rejected.append((k, traces[k]["id"], matched, of, json.dumps(nxt)))
    inv = []
    # split on error blocks: each "Error: Invariant X is violated." is followed by a behaviour
    parts = re.split(r"(Error: Invariant \w+ is violated)", out)
    for i in range(1, len(parts), 2):
        name = _RE_INV.match(parts[i]).group(1)
        body = parts[i + 1] if i + 1 < len(parts) else ""
        tids = _RE_TID.findall(body)
        if tids:
            k = int(tids[-1]) - 1
            inv.append((name, k, traces[k]["id"]))
        else:
            inv.append((name, -1, "?"))
    inv = sorted(set(inv))
    fatal = _fatal(out)
    if fatal and not inv:
        raise MachineryError(f"TLC failed validating with {spec}/{cfg}: {fatal}\n{out[-4000:]}")
    finished = ("Model checking completed" in out) or ("states generated" in out)
    if not finished:
        raise MachineryError(f"TLC gave no verdict validating with {spec}/{cfg}\n{out[-4000:]}")
    if not rejected and not inv and "Postcondition" in out and "is false" in out:
        raise MachineryError(f"postcondition false but nothing parsed\n{out[-3000:]}")
    if not rejected and not inv and "No error has been found" not in out:
        raise MachineryError(f"TLC reported an error that was not understood\n{out[-4000:]}")
    return dict(rejected=rejected, inv=inv, generated=gen, distinct=dist, n=len(traces), wall_s=dt, out=out,
                spec=spec, cfg=cfg, extra_env=extra_env, heap=heap, dfs=dfs)


_RE_BEH = re.compile(r'^"(\[.*\])"$')


def behaviours(spec, cfg, simulate=None, depth=None, seed=None, workers=1, timeout=1800, extra_env=None):
    """Run a Sim* module whose invariant prints ToJson(hist) lines; return the
    list of distinct behaviours (each a list of action records)."""
    md = tempfile.mkdtemp(prefix="bh.", dir=scratch())
    args = ["-workers", str(workers), "-metadir", md, "-noGenerateSpecTE", "-config", cfg]
    if simulate is not None:
        args += ["-simulate", f"num={simulate}"]
        if depth:
            args += ["-depth", str(depth)]
    if seed is not None:
        args += ["-seed", str(seed)]
    args.append(spec)
    rc, out, dt = _java(args, env=extra_env, timeout=timeout)
    shutil.rmtree(md, ignore_errors=True)
    fatal = _fatal(out)
    if fatal:
        raise MachineryError(f"TLC failed generating behaviours {spec}/{cfg}: {fatal}\n{out[-3000:]}")
    seen = {}
    for line in out.splitlines():
        m = _RE_BEH.match(line.strip())
        if m:
            s = json.loads('"' + m.group(1) + '"')
            seen.setdefault(s, None)
    res = [json.loads(s) for s in seen]
    gen, dist, dep = _counts(out)
    return dict(behaviours=res, generated=gen, distinct=dist, wall_s=dt, out=out)


def sany(spec):
    p = subprocess.run(["java", "-cp", JAR, "tla2sany.SANY", spec], cwd=SPEC_DIR, capture_output=True, text=True)
    out = p.stdout + p.stderr
    return ("Semantic errors" not in out and "error" not in out.lower().replace("errors: 0", "")), out
