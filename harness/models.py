"""Potentials with closed-form phases, used by the conformance drivers (C01, C04, C07-C11).

OneField  V = D (T^2 - T0^2) phi^2 - E T |phi|^3 + lam/4 phi^4 - c T^4   (Z2 symmetric: with a plain
          phi^3 the symmetric minimum would merge continuously into a negative-phi minimum at T0)
          phases: "sym" phi = 0 (minimum for T > T0),
                  "brk" phi = [3 E T + sqrt(9 E^2 T^2 - 8 lam D (T^2 - T0^2))] / (2 lam)   (T < T1)
TwoField  V = 1/2 (-muh2 + ch T^2) h^2 + lh/4 h^4 + 1/2 (-mus2 + cs T^2) s^2 + ls/4 s^4
              + lhs/4 h^2 s^2 - c T^4
          phases: "H" (v, 0), "S" (0, w), "O" (0, 0)

All dimensionful inputs scale with the unit factor u (fields, temperatures ~ u; mass^2 ~ u^2;
V ~ u^4); the couplings are dimensionless.  `make_potential` builds the WallGo
EffectivePotential subclass at call time so that WallGo is imported from the working tree.
"""
import math

import numpy as np


class OneField:
    nf = 1

    def __init__(self, D=0.3, E=0.05, lam=0.1, T0=100.0, c=30.0, u=1.0):
        self.D, self.E, self.lam, self.c, self.u = D, E, lam, c, u
        self.T0 = T0 * u
        self.T1 = self.T0 * math.sqrt(8 * lam * D / (8 * lam * D - 9 * E * E))
        # critical temperature: degenerate minima  phi_c = 2 E T / lam
        self.Tc = self.T0 * math.sqrt(lam * D / (lam * D - E * E))

    def V(self, phi, T):
        phi = np.asarray(phi, float)
        T = np.asarray(T, float)
        return self.D * (T**2 - self.T0**2) * phi**2 - self.E * T * np.abs(phi) ** 3 + self.lam / 4 * phi**4 - self.c * T**4

    def branches(self):
        return ["sym", "brk"]

    def exists(self, br, T):
        return T > self.T0 if br == "sym" else T < self.T1

    def spinodals(self, br):
        """(Tlow, Thigh) between which the branch is a local minimum (0 / inf when unbounded)"""
        return (self.T0, math.inf) if br == "sym" else (0.0, self.T1)

    def minimum(self, br, T):
        T = np.asarray(T, float)
        if br == "sym":
            return np.zeros(T.shape + (1,))
        disc = 9 * self.E**2 * T**2 - 8 * self.lam * self.D * (T**2 - self.T0**2)
        phi = (3 * self.E * T + np.sqrt(np.maximum(disc, 0.0))) / (2 * self.lam)
        return phi[..., None]

    def Vmin(self, br, T):
        return self.V(self.minimum(br, T)[..., 0], T)

    def field_scale(self):
        return float(self.minimum("brk", self.Tc)[0])

    def to_canonical(self, f):
        return np.abs(np.asarray(f, float))        # +phi and -phi are the same physical branch

    def from_canonical(self, f):
        return np.asarray(f, float)


class TwoField:
    nf = 2

    def __init__(self, muh2=7000.0, mus2=3000.0, lh=0.13, ls=0.5, lhs=1.0, ch=0.45, cs=0.12, c=30.0, u=1.0, perm=(0, 1), sign=(1, 1), shift=(0.0, 0.0)):
        self.muh2, self.mus2 = muh2 * u * u, mus2 * u * u
        self.lh, self.ls, self.lhs, self.ch, self.cs, self.c, self.u = lh, ls, lhs, ch, cs, c, u
        self.perm, self.sign, self.shift = tuple(perm), tuple(sign), tuple(s * u for s in shift)

    # ---- field-space relabelling  phi' = g(phi):  phi'_j = sign_j * phi_perm(j) + shift_j
    def to_canonical(self, f):
        f = np.asarray(f, float)
        out = np.empty_like(f)
        for j in range(2):
            out[..., self.perm[j]] = (f[..., j] - self.shift[j]) * self.sign[j]
        return out

    def from_canonical(self, f):
        f = np.asarray(f, float)
        out = np.empty_like(f)
        for j in range(2):
            out[..., j] = self.sign[j] * f[..., self.perm[j]] + self.shift[j]
        return out

    def Vc(self, h, s, T):
        mh2 = -self.muh2 + self.ch * T**2
        ms2 = -self.mus2 + self.cs * T**2
        return 0.5 * mh2 * h**2 + self.lh / 4 * h**4 + 0.5 * ms2 * s**2 + self.ls / 4 * s**4 + self.lhs / 4 * h**2 * s**2 - self.c * T**4

    def V(self, f, T):
        g = self.to_canonical(f)
        return self.Vc(g[..., 0], g[..., 1], np.asarray(T, float))

    def branches(self):
        return ["H", "S", "O"]

    def _masses(self, br, T):
        """(curvature along h, curvature along s) at the branch point, canonical labels"""
        mh2 = -self.muh2 + self.ch * T**2
        ms2 = -self.mus2 + self.cs * T**2
        if br == "H":
            v2 = -mh2 / self.lh
            return (2 * self.lh * v2, ms2 + 0.5 * self.lhs * v2, v2)
        if br == "S":
            w2 = -ms2 / self.ls
            return (mh2 + 0.5 * self.lhs * w2, 2 * self.ls * w2, w2)
        return (mh2, ms2, 1.0)

    def exists(self, br, T):
        a, b, sq = self._masses(br, T)
        return bool(sq > 0 and a > 0 and b > 0)

    def spinodals(self, br, Tmax=None):
        """existence interval containing a temperature where the branch exists (bisection on exists)"""
        Tmax = Tmax or 10 * math.sqrt(max(self.muh2 / self.ch, self.mus2 / self.cs))
        grid = np.linspace(Tmax * 1e-4, Tmax, 20001)
        ok = np.array([self.exists(br, t) for t in grid])
        if not ok.any():
            return None
        i0, i1 = np.argmax(ok), len(ok) - 1 - np.argmax(ok[::-1])

        def refine(a, b):  # exists(a) != exists(b)
            ea = self.exists(br, a)
            for _ in range(80):
                m = 0.5 * (a + b)
                if self.exists(br, m) == ea:
                    a = m
                else:
                    b = m
            return 0.5 * (a + b)

        lo = 0.0 if i0 == 0 else refine(grid[i0 - 1], grid[i0])
        hi = math.inf if i1 == len(ok) - 1 else refine(grid[i1], grid[i1 + 1])
        return (lo, hi)

    def minimum(self, br, T):
        T = np.asarray(T, float)
        z = np.zeros(T.shape)
        if br == "H":
            g = np.stack([np.sqrt(np.maximum((self.muh2 - self.ch * T**2) / self.lh, 0)), z], axis=-1)
        elif br == "S":
            g = np.stack([z, np.sqrt(np.maximum((self.mus2 - self.cs * T**2) / self.ls, 0))], axis=-1)
        else:
            g = np.stack([z, z], axis=-1)
        return self.from_canonical(g)

    def Vmin(self, br, T):
        return self.V(self.minimum(br, T), T)

    def field_scale(self):
        return math.sqrt(self.muh2 / self.lh)

    def Tc(self, a="H", b="S"):
        lo = max(self.spinodals(a)[0], self.spinodals(b)[0])
        hi = min(self.spinodals(a)[1], self.spinodals(b)[1])
        f = lambda T: float(self.Vmin(a, np.array(T)) - self.Vmin(b, np.array(T)))
        ts = np.linspace(lo * 1.0001 + 1e-9, hi * 0.9999, 4001)
        vals = np.array([f(t) for t in ts])
        idx = np.where(np.sign(vals[:-1]) != np.sign(vals[1:]))[0]
        if len(idx) == 0:
            return None
        x, y = ts[idx[0]], ts[idx[0] + 1]
        for _ in range(100):
            m = 0.5 * (x + y)
            if np.sign(f(m)) == np.sign(f(x)):
                x = m
            else:
                y = m
        return 0.5 * (x + y)


class ThreeField(TwoField):
    """TwoField plus a third field x that follows h:   V3 = V2(h, s) + 1/2 mx2 (x - a h)^2.
    Phases in closed form: "H" (v, 0, a v), "S" (0, w, 0), "O" (0, 0, 0); V at the minima, existence intervals and Tc are
    those of the two-field model (the extra term vanishes on x = a h and its Hessian contribution is positive
    semi-definite), but the third field changes across the wall, so its width and offset are determined."""
    nf = 3

    def __init__(self, mx2=5000.0, a=0.6, u=1.0, perm=(0, 1, 2), sign=(1, 1, 1), shift=(0.0, 0.0, 0.0), **kw):
        TwoField.__init__(self, u=u, **kw)
        self.mx2, self.a = mx2 * u * u, a
        self.perm, self.sign, self.shift = tuple(perm), tuple(sign), tuple(s * u for s in shift)

    def to_canonical(self, f):
        f = np.asarray(f, float)
        out = np.empty_like(f)
        for j in range(3):
            out[..., self.perm[j]] = (f[..., j] - self.shift[j]) * self.sign[j]
        return out

    def from_canonical(self, f):
        f = np.asarray(f, float)
        out = np.empty_like(f)
        for j in range(3):
            out[..., j] = self.sign[j] * f[..., self.perm[j]] + self.shift[j]
        return out

    def V(self, f, T):
        g = self.to_canonical(f)
        return self.Vc(g[..., 0], g[..., 1], np.asarray(T, float)) + 0.5 * self.mx2 * (g[..., 2] - self.a * g[..., 0]) ** 2

    def minimum(self, br, T):
        T = np.asarray(T, float)
        z = np.zeros(T.shape)
        if br == "H":
            v = np.sqrt(np.maximum((self.muh2 - self.ch * T**2) / self.lh, 0))
            g = np.stack([v, z, self.a * v], axis=-1)
        elif br == "S":
            g = np.stack([z, np.sqrt(np.maximum((self.mus2 - self.cs * T**2) / self.ls, 0)), z], axis=-1)
        else:
            g = np.stack([z, z, z], axis=-1)
        return self.from_canonical(g)


def nearest_branch(model, fields, T):
    """id of the closed-form branch nearest to `fields` at temperature T (branches that do not
    exist at T are still candidates: a point beyond a spinodal is then 'nearest to nothing')"""
    best, bd = None, math.inf
    for br in model.branches():
        for sgn in ([1.0] if model.nf == 1 else [1.0]):
            m = model.minimum(br, np.array(T))
            d = float(np.linalg.norm(np.asarray(fields) - m))
            if True:
                # Z2 images of the canonical fields are the same physical branch
                g = model.to_canonical(np.asarray(fields))
                gm = model.to_canonical(m)
                d = float(np.linalg.norm(np.abs(g) - np.abs(gm)))
            if d < bd:
                best, bd = br, d
    return best, bd


def make_potential(model, log=None):
    """WallGo EffectivePotential for `model`; optional call log (list) records (kind, T, fields)"""
    import WallGo

    class Pot(WallGo.EffectivePotential):
        fieldCount = model.nf
        effectivePotentialError = 1e-15

        def evaluate(self, fields, temperature):
            f = np.asarray(fields, float)
            T = np.asarray(temperature, float)
            if model.nf == 1:
                return np.asarray(model.V(f[..., 0], T))
            return np.asarray(model.V(f, T))

        def findLocalMinimum(self, initialGuess, temperature, tol=None):
            if log is not None:
                log.append(("min", np.array(temperature, float, copy=True), np.array(initialGuess, float, copy=True)))
            return super().findLocalMinimum(initialGuess, temperature, tol)

    return Pot()


def pipeline_model(name, u=1.0, **kw):
    """models used for whole-pipeline runs: both phases exist over the whole temperature range the manager
    traces (0.8 Tn .. ~1.3 Tn).  one-field: E=0.155, T0=100, Tc=224.1, T1=317.7, Tn = 210..215 (alpha_n ~ 0.011,
    LTE deflagration); two-field: alpha_n ~ 0.005 at Tn = 0.92 Th"""
    if name == "one":
        return OneField(E=0.155, c=kw.pop("c", 10.0), u=u)
    if name == "three":
        return ThreeField(c=5.0, u=u, **kw)
    return TwoField(c=5.0, u=u, **kw)
