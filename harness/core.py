"""Check bookkeeping: verdict collection, known findings, evidence, exit status.

Rule of the framework: Python measures, TLC judges.  A `Check` only ever records
  * results of TLC design-model runs      (add_model)
  * results of TLC trace validations      (add_validation)
and turns rejected traces / violated invariants into VIOLATION or KNOWN-FINDING
lines.  Nothing in this file compares a measured number with a tolerance.
"""
from __future__ import annotations

import json
import os
import sys
import time

from . import tlc

ROOT = os.path.dirname(os.path.dirname(os.path.abspath(__file__)))
EVID = os.environ.get("VERIF_EVIDENCE_DIR") or os.path.join(ROOT, "evidence")   # seeded-change runs write elsewhere
REPLAYS = os.path.join(ROOT, "replays")
FINDINGS = os.path.join(ROOT, "known_findings.json")


def load_findings(pid):
    if not os.path.exists(FINDINGS):
        return []
    with open(FINDINGS) as f:
        data = json.load(f)
    return [x for x in data.get("findings", []) if x.get("property") == pid and x.get("status", "open") == "open"]


class Check:
    def __init__(self, pid, level, tier, seed):
        self.pid, self.level, self.tier, self.seed = pid, level, tier, seed
        self.t0 = time.time()
        self.states = 0
        self.transitions = 0
        self.models = []
        self.validated = 0
        self.trace_states = 0
        self.violations = []       # (key, replay_path, msg)
        self.known = []            # (finding, trace id)
        self.samples = []
        self.extra = {}
        self.assumptions = []
        self.trusted = ["TLC 1.8.0 (tla2tools)", "harness quantiser (harness/quant.py)", "NumPy/SciPy as used by WallGo itself"]
        self.evaluations = 0
        self.distinct = set()
        self.rule = ""
        self.findings = load_findings(pid)
        self._vals = {}            # (spec, cfg) -> (validation result, up to 3 accepted traces) for the binding self-test
        os.makedirs(os.path.join(REPLAYS, pid), exist_ok=True)
        for f in os.listdir(os.path.join(REPLAYS, pid)):          # replays of earlier runs are stale
            try:
                os.remove(os.path.join(REPLAYS, pid, f))
            except OSError:
                pass

    # ---------------------------------------------------------------- design models
    def add_model(self, res, expect_violation=None, label=None):
        """Record a TLC design-model run.  expect_violation: name of an invariant that the
        model is *expected* to violate (documented counterexample); anything else is a
        violation of the design and is reported."""
        self.states += res["distinct"]
        self.transitions += res["generated"]
        entry = dict(spec=res["spec"], cfg=res["cfg"], distinct=res["distinct"], generated=res["generated"],
                     depth=res["depth"], violated=res["violated"], wall_s=round(res["wall_s"], 2))
        if label:
            entry["label"] = label
        if res.get("coverage"):
            entry["actions_covered"] = {k: v for k, v in res["coverage"].items()}
            never = [k for k, v in res["coverage"].items() if v == 0]
            entry["actions_never_taken"] = never
        self.models.append(entry)
        if expect_violation is not None:
            if expect_violation not in res["violated"]:
                self.violation(f"design:{res['spec']}/{res['cfg']}:expected-counterexample-missing", None,
                               f"design model {res['cfg']} was expected to violate {expect_violation} (documented deviation) but did not")
            return
        for v in res["violated"]:
            path = os.path.join(REPLAYS, self.pid, f"design_{os.path.basename(res['cfg'])}_{v}.txt")
            with open(path, "w") as f:
                f.write(res["out"][-20000:])
            self.violation(f"design:{res['cfg']}:{v}", path, f"design model violates {v}")

    # ---------------------------------------------------------------- traces
    def add_validation(self, res, traces, what="trace"):
        self.validated += res["n"]
        self.trace_states += res["distinct"]
        bad = {}
        if res.get("spec") and (res["spec"], res["cfg"]) not in self._vals:
            rej = {k for (k, *_r) in res["rejected"]} | {k for (_n, k, _t) in res["inv"]}
            okt = [t for i, t in enumerate(traces) if i not in rej and len(t["ev"]) >= 1]
            if okt:
                okt.sort(key=lambda t: -len(t["ev"]))
                self._vals[(res["spec"], res["cfg"])] = (res, okt[:1] + okt[len(okt) // 2:len(okt) // 2 + 1] + okt[-1:])
        for (k, tid, matched, of, nxt) in res["rejected"]:
            bad.setdefault(k, []).append(f"rejected at event {matched + 1}/{of}: {nxt[:300]}")
        for (name, k, tid) in res["inv"]:
            bad.setdefault(k, []).append(f"invariant {name} violated")
        for k, msgs in sorted(bad.items()):
            t = traces[k] if k >= 0 else {"id": "?", "ev": []}
            path = os.path.join(REPLAYS, self.pid, _safe(t["id"]) + ".json")
            with open(path, "w") as f:
                json.dump(t, f, indent=1)
            self.violation(t.get("key", t["id"]), path, f"{what} {t['id']}: " + "; ".join(msgs), trace=t)

    def violation(self, key, path, msg, trace=None):
        for fnd in self.findings:
            if _match(fnd, key, trace):
                self.known.append((fnd, key, msg))
                return
        self.violations.append((key, path, msg))

    # ---------------------------------------------------------------- coverage helpers
    def count(self, cell, nontrivial=True):
        self.evaluations += 1
        if nontrivial:
            self.distinct.add(cell if isinstance(cell, (str, int, tuple)) else json.dumps(cell, sort_keys=True))

    def sample(self, s, maxn=6):
        if len(self.samples) < maxn:
            self.samples.append(s)

    # ---------------------------------------------------------------- finish
    # ---------------------------------------------------------------- binding self-test
    def selftest(self):
        """Demonstrate that the trace specifications constrain what was recorded: for accepted traces of this run, drop one
        event / corrupt the integer and boolean fields of one event and let TLC judge the mutants.  Reported in the evidence;
        a trace specification that accepts every mutant is a machinery failure."""
        out = []
        for (spec, cfg), (res, traces) in self._vals.items():
            muts = []
            for t in traces:
                ev = t["ev"]
                n = len(ev)
                for i in sorted({0, (n - 1) // 2, max(n - 2, 0)}):
                    if n >= 2 and i < n - 1:
                        muts.append({"id": f"{t['id']}#drop{i}", "ev": ev[:i] + ev[i + 1:]})
                for i in sorted({0, (n - 1) // 2, n - 1}):
                    e = ev[i]
                    if not isinstance(e, dict):
                        continue
                    for tag, f in (("up", lambda v: 7 * abs(v) + 13), ("down", lambda v: -1 - abs(v))):
                        e2 = {k: ((not v) if isinstance(v, bool) else f(v) if isinstance(v, int) else v) for k, v in e.items()}
                        if e2 != e:
                            muts.append({"id": f"{t['id']}#corrupt{i}{tag}", "ev": ev[:i] + [e2] + ev[i + 1:]})
            if not muts:
                continue
            try:
                r = tlc.validate(spec, cfg, muts, extra_env=res.get("extra_env"), heap=res.get("heap", "6g"), dfs=res.get("dfs", False), timeout=900)
                bad = {k for (k, *_r) in r["rejected"]} | {k for (_n, k, _t) in r["inv"]}
                acc = [m["id"] for i, m in enumerate(muts) if i not in bad]
                out.append(dict(spec=spec, cfg=cfg, mutants=len(muts), not_accepted=len(muts) - len(acc), accepted=acc[:12]))
                if len(acc) == len(muts):
                    raise tlc.MachineryError(f"binding self-test: {spec}/{cfg} accepted all {len(muts)} corrupted traces")
            except tlc.MachineryError as ex:
                if "accepted all" in str(ex):
                    raise
                out.append(dict(spec=spec, cfg=cfg, mutants=len(muts), not_accepted=len(muts), accepted=[],
                                note="TLC could not evaluate the corrupted batch (evaluation error on corrupted input): none accepted"))
        return out

    def finish(self):
        if not os.environ.get("VERIF_NO_SELFTEST"):
            self.extra["binding_selftest"] = self.selftest()
        wall = time.time() - self.t0
        cov = dict(self.extra)
        cov.update(
            evaluations=max(self.evaluations, 0),
            distinct_nontrivial=len(self.distinct),
            rule=self.rule,
            samples=self.samples if self.samples else ["<none>"],
            states=self.states,
            transitions=self.transitions,
            traces_validated_against_impl=self.validated,
            trace_validation_states=self.trace_states,
            design_models=self.models,
            trusted_base=self.trusted,
            known_findings_reported=[dict(id=f.get("id"), key=k) for f, k, _ in self.known][:50],
            violations_list=[dict(key=k, replay=p, msg=m[:500]) for k, p, m in self.violations][:50],
        )
        ev = dict(property_id=self.pid, tier=self.tier, seed=self.seed, level=self.level, coverage=cov,
                  assumptions=self.assumptions, wall_s=round(wall, 2), violations=len(self.violations))
        os.makedirs(EVID, exist_ok=True)
        with open(os.path.join(EVID, f"{self.pid}.json"), "w") as f:
            json.dump(ev, f, indent=1, default=str)
        seen = set()
        for fnd, key, msg in self.known:
            if fnd.get("id") in seen:
                continue
            seen.add(fnd.get("id"))
            n = sum(1 for f2, _, _ in self.known if f2.get("id") == fnd.get("id"))
            print(f"KNOWN-FINDING: property={self.pid} {fnd.get('id')}: {fnd.get('what')} [{n} trace(s), e.g. {key}]")
        for key, path, msg in self.violations[:25]:
            print(f"VIOLATION property={self.pid} replay={path}")
            print(f"  detail: key={key} {msg[:600]}")
        if len(self.violations) > 25:
            print(f"  ... and {len(self.violations) - 25} more violations (all listed in the evidence file's violations_list up to 50; replays under replays/{self.pid}/)")
        print(f"[{self.pid}] tier={self.tier} seed={self.seed} design_states={self.states} traces_validated={self.validated} "
              f"evaluations={self.evaluations} distinct={len(self.distinct)} known={len(self.known)} "
              f"violations={len(self.violations)} wall={wall:.1f}s")
        sys.stdout.flush()
        return 1 if self.violations else 0


def _safe(s):
    return "".join(c if c.isalnum() or c in "-_." else "_" for c in str(s))[:150]


def _match(fnd, key, trace):
    """A finding matches a violation when every (field, value) of its `match` dict equals the
    corresponding field of the trace's `cell` dict (structural key), or when `key` equals the
    finding's literal key."""
    if "key" in fnd and fnd["key"] == key:
        return True
    m = fnd.get("match")
    if m and trace is not None and isinstance(trace.get("cell"), dict):
        cell = trace["cell"]
        if "symptoms_any" in m or "symptoms_subset" in m:
            # a trace can show several symptoms at once: it belongs to this finding when at least one of the finding's
            # own symptoms is present and every symptom present is one the finding explains (so that an additional,
            # unexplained symptom in the same trace is still reported)
            have = set(cell.get("symptoms") or ([] if cell.get("symptom") in (None, "none", "several") else [cell.get("symptom")]))
            if not have or not (have & set(m.get("symptoms_any", []))) or not have <= set(m.get("symptoms_subset", m.get("symptoms_any", []))):
                return False
            m = {k: v for k, v in m.items() if k not in ("symptoms_any", "symptoms_subset")}
        for k, v in m.items():
            cv = cell.get(k)
            if isinstance(v, list):
                if cv not in v:
                    return False
            elif cv != v:
                return False
        return True
    return False
