"""Equations of state with closed-form p, dp, ddp (Thermodynamics subclasses, as the repository's own
tests build them) and the independent self-similar-flow oracle used by C03/C15.

bag        pH = a T^4/3 - eps,           pL = psi a T^4/3
template   pH = a+ T^mu/3 - eps,         pL = a- T^nu/3      mu = 1+1/cs2, nu = 1+1/cb2
twostep    the polynomial two-step model of tests/test_Hydrodynamics.py
poly       pH = a (T^4 + s2 Tc^2 T^2) - eps,   pL = a (psi T^4 + b2 Tc^2 T^2)      (s2, b2 != 0: sound speeds that depend
           markedly on temperature in BOTH phases, 0.26..0.30 for s2 = -0.4 between 0.8 and 1.2 Tc; the two-step model's
           dependence is too mild to tell conditions that coincide for a constant sound speed apart)
"""
import math
from dataclasses import dataclass

import numpy as np
from scipy.integrate import solve_ivp, quad
from scipy.optimize import brentq


@dataclass
class FreeEnergyHack:
    minPossibleTemperature: list
    maxPossibleTemperature: list


def make_eos(kind, Tn, **par):
    import WallGo

    class EOS(WallGo.Thermodynamics):
        __test__ = False

        def __init__(self):
            self.Tnucl = Tn
            self.kind, self.par = kind, par
            lo = par.get("TMinFactor", 1e-3) * Tn
            hiH = par.get("TMaxHigh", 1e3) * Tn
            hiL = par.get("TMaxLow", 1e3) * Tn
            self.freeEnergyHigh = FreeEnergyHack([lo, False], [hiH, False])
            self.freeEnergyLow = FreeEnergyHack([lo, False], [hiL, False])
            self.TMinLowT = self.TMinHighT = lo
            self.TMaxLowT, self.TMaxHighT = hiL, hiH
            if kind == "template":
                al, psi, cs2, cb2 = par["alN"], par["psiN"], par["cs2"], par["cb2"]
                self.mu, self.nu = 1 + 1 / cs2, 1 + 1 / cb2
                self.ap = 3.0 / Tn**self.mu * par.get("scale", 1.0)          # wH(Tn) = mu * scale
                wH = self.mu / 3 * self.ap * Tn**self.mu
                self.am = 3 * psi * wH / (self.nu * Tn**self.nu)
                self.eps = (3 * wH * al - self.ap * Tn**self.mu * (self.mu - self.nu) / 3) / self.nu
            elif kind == "bag":
                self.a = par.get("scale", 1.0) * 3.0
                self.psi = par["psi"]
                self.eps = (1 - self.psi) * self.a / 3 * par["Tc"] ** 4
            elif kind == "poly":
                self.a, self.psi, self.s = par.get("scale", 1.0), par["psi"], par.get("Tc", 1.0)
                self.s2, self.b2 = par["s2"] * self.s**2, par["b2"] * self.s**2
                self.eps = par["eps"] * self.a * self.s**4
            elif kind == "twostep":
                self.aL, self.aH, self.musq, self.s = par.get("abrok", 0.2), par.get("asym", 0.1), par.get("musq", 0.4), par.get("Tc", 1.0)

        # temperatures are rescaled by Tc for the two-step model (its critical temperature is 1)
        def pHighT(self, T):
            if kind == "poly":
                return self.a * (T**4 + self.s2 * T**2) - self.eps
            if kind == "template":
                return self.ap * T**self.mu / 3 - self.eps
            if kind == "bag":
                return self.a * T**4 / 3 - self.eps
            t = T / self.s
            return self.s**4 * (t**4 + (self.aL - self.aH + self.aH * t**2 - self.musq) ** 2 - self.musq**2)

        def dpHighT(self, T):
            if kind == "poly":
                return self.a * (4 * T**3 + 2 * self.s2 * T)
            if kind == "template":
                return self.mu * self.ap * T ** (self.mu - 1) / 3
            if kind == "bag":
                return 4 * self.a * T**3 / 3
            t = T / self.s
            return self.s**3 * (4 * t**3 + 4 * self.aH * t * (self.aL - self.aH + self.aH * t**2 - self.musq))

        def ddpHighT(self, T):
            if kind == "poly":
                return self.a * (12 * T**2 + 2 * self.s2)
            if kind == "template":
                return self.mu * (self.mu - 1) * self.ap * T ** (self.mu - 2) / 3
            if kind == "bag":
                return 4 * self.a * T**2
            t = T / self.s
            return self.s**2 * (12 * t**2 + 8 * self.aH**2 * t**2 + 4 * self.aH * (self.aL - self.aH + self.aH * t**2 - self.musq))

        def pLowT(self, T):
            if kind == "poly":
                return self.a * (self.psi * T**4 + self.b2 * T**2)
            if kind == "template":
                return self.am * T**self.nu / 3
            if kind == "bag":
                return self.psi * self.a * T**4 / 3
            t = T / self.s
            return self.s**4 * (t**4 + (self.aL * t**2 - self.musq) ** 2 - self.musq**2)

        def dpLowT(self, T):
            if kind == "poly":
                return self.a * (4 * self.psi * T**3 + 2 * self.b2 * T)
            if kind == "template":
                return self.nu * self.am * T ** (self.nu - 1) / 3
            if kind == "bag":
                return 4 * self.psi * self.a * T**3 / 3
            t = T / self.s
            return self.s**3 * (4 * t**3 + 4 * self.aL * t * (self.aL * t**2 - self.musq))

        def ddpLowT(self, T):
            if kind == "poly":
                return self.a * (12 * self.psi * T**2 + 2 * self.b2)
            if kind == "template":
                return self.nu * (self.nu - 1) * self.am * T ** (self.nu - 2) / 3
            if kind == "bag":
                return 4 * self.psi * self.a * T**2
            t = T / self.s
            return self.s**2 * (12 * t**2 + 8 * self.aL**2 * t**2 + 4 * self.aL * (self.aL * t**2 - self.musq))

    return EOS()


# ------------------------------------------------------------------ oracle (independent of WallGo.hydrodynamics)
def mu_boost(xi, v):
    return (xi - v) / (1 - xi * v)


def g2(v):
    return 1.0 / (1.0 - v * v)


def flow_rhs(th, high):
    cs2 = th.csqHighT if high else th.csqLowT

    def rhs(xi, y):
        v, T = y
        c2 = float(cs2(float(T)))
        m = mu_boost(xi, v)
        den = g2(v) * (1 - v * xi) * (m * m / c2 - 1)
        dv = 2 * v / xi / den
        dT = T * g2(v) * m * dv
        return [dv, dT]

    return rhs


def shock_oracle(th, vw, vp, Tp):
    """integrate the compression wave in the similarity variable xi from the wall to the shock front;
    returns dict(TnOracle, xiShock, restOK, momResidual, profile)"""
    Tn = th.Tnucl
    v0 = mu_boost(vw, vp)               # fluid velocity just ahead of the wall, bubble-centre frame
    out = {}
    if v0 <= 0 or abs(vw - vp) < 1e-14:
        out.update(xiShock=math.sqrt(float(th.csqHighT(Tp))), Tsh=Tp, vsh=0.0, profile=None)
    else:
        def front(xi, y):
            return mu_boost(xi, y[0]) * xi - float(th.csqHighT(float(y[1])))

        front.terminal = True
        front.direction = 0
        if front(vw, [v0, Tp]) > 0:
            out.update(xiShock=vw, Tsh=Tp, vsh=v0, profile=None)   # shock coincides with the wall
        else:
            # a very weak compression wave reaches the front condition only asymptotically (v -> 0 at
            # xi -> cs): a second terminal event stops where the flow has decayed by seven decades
            def faded(xi, y):
                return y[0] - 1e-7 * v0

            faded.terminal = True
            sol = solve_ivp(flow_rhs(th, True), [vw, 1.0 - 1e-12], [v0, Tp], method="DOP853", rtol=1e-11, atol=0.0,
                            events=[front, faded], dense_output=True)
            if sol.t_events[0].size:
                xs = float(sol.t_events[0][0])
                vs, Ts = sol.y_events[0][0]
            elif sol.t_events[1].size:
                xs = float(sol.t_events[1][0])
                vs, Ts = sol.y_events[1][0]
            else:
                return None
            out.update(xiShock=xs, Tsh=float(Ts), vsh=float(vs), profile=sol)
    xs, Ts, vs = out["xiShock"], out["Tsh"], out["vsh"]
    v2 = mu_boost(xs, vs)               # fluid speed behind the front, front frame
    # energy flux across the front: w(Tn) g1^2 v1 = w(Tsh) g2^2 v2, v1 = xs (plasma at rest ahead)
    rhs_e = float(th.wHighT(Ts)) * g2(v2) * v2

    def eflux(tn):
        return float(th.wHighT(tn)) * g2(xs) * xs - rhs_e

    lo, hi = 0.2 * Tn, Ts
    try:
        if eflux(lo) * eflux(hi) > 0:
            lo = 0.02 * Tn
        tno = brentq(eflux, lo, hi, xtol=1e-14 * Tn, rtol=1e-14)
    except ValueError:
        return None
    out["TnOracle"] = tno
    mom_l = float(th.wHighT(tno)) * g2(xs) * xs * xs + float(th.pHighT(tno))
    mom_r = float(th.wHighT(Ts)) * g2(v2) * v2 * v2 + float(th.pHighT(Ts))
    out["momResidual"] = abs(mom_l - mom_r) / abs(mom_r)
    return out


def kappa_oracle(th, vw, vp, vm, Tp, Tm, alN, shock):
    """efficiency factor = 4/(vw^3 alpha_n w_n) * int xi^2 v^2 gamma^2 w dxi over the same flow profile"""
    Tn = th.Tnucl
    wn = float(th.wHighT(Tn))
    tot = 0.0
    if shock is not None and shock.get("profile") is not None:
        sol = shock["profile"]

        def f(xi):
            v, T = sol.sol(xi)
            return xi * xi * v * v * g2(v) * float(th.wHighT(float(T)))

        tot += quad(f, vw, shock["xiShock"], epsabs=0, epsrel=1e-10, limit=200)[0]
    csm2 = float(th.csqLowT(Tm))
    if vw * vw > csm2 * (1 + 1e-12):
        v0 = mu_boost(vw, vm)
        if v0 > 1e-13:
            # rarefaction wave behind the wall.  For hybrids it starts exactly at mu = c_s, where
            # dv/dxi diverges, so this piece is integrated with the fluid velocity as independent
            # variable (own right-hand side, dxi/dv and dT/dv), from v0 down to (almost) rest.
            def rhs_v(v, y):
                xi, T = y
                c2 = float(th.csqLowT(float(T)))
                m = mu_boost(xi, v)
                dxi = xi / (2 * v) * g2(v) * (1 - v * xi) * (m * m / c2 - 1)
                return [dxi, T * g2(v) * m]

            sol = solve_ivp(rhs_v, [v0, 1e-9 * v0], [vw, Tm], method="DOP853", rtol=1e-11, atol=0.0, dense_output=True)

            def f(v):
                xi, T = sol.sol(v)
                dxi = rhs_v(v, [xi, T])[0]
                return xi * xi * v * v * g2(v) * float(th.wLowT(float(T))) * dxi

            # xi decreases as v decreases: int over xi from xi_end to vw = int over v from v_end to v0
            tot += quad(f, 1e-9 * v0, v0, epsabs=0, epsrel=1e-10, limit=400)[0]
    return 4 * tot / (vw**3 * alN * wn)
