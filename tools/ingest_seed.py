#!/venv/bin/python
"""Confirm a sub-agent's seeded changes in its scratch worktree and keep them under /verif/seeded/.

usage: tools/ingest_seed.py <round-prefix> <property> <worktree> [--also C07,C10]

For m1, m2 in <worktree> (m?.diff, demo_m?.py, notes.json):
  clean tree:   demo must print OK / exit 0
  with change:  demo must print BROKEN / exit 1, the unedited suite must stay at 152 passed
then the owning check (quick; thorough if quick is silent) is run against the worktree (WALLGO_SRC; /repo is never
touched) and the change is stored as seeded/<prefix>_<property>_<m>/ with a meta.json that records all of that.
"""
import json, os, re, shutil, subprocess, sys, tempfile

ROOT = os.path.dirname(os.path.dirname(os.path.abspath(__file__)))


def sh(cmd, cwd=None, env=None, timeout=3600):
    p = subprocess.run(cmd, shell=True, capture_output=True, text=True, cwd=cwd, env=env, timeout=timeout)
    return p.returncode, (p.stdout + p.stderr)


def last_line(out, pat):
    ls = [l for l in out.splitlines() if re.search(pat, l)]
    return ls[-1].strip() if ls else ""


def run_check(pid, tier, wt, evdir):
    env = dict(os.environ, WALLGO_SRC=wt + "/src", VERIF_EVIDENCE_DIR=evdir, VERIF_NO_SELFTEST="1")
    rc, out = sh(f"{ROOT}/check {pid} --tier {tier}", cwd=ROOT, env=env, timeout=7200)
    det = [l.strip() for l in out.splitlines() if l.strip().startswith("detail:")]
    return dict(tier=tier, exit=rc, violations=sum(l.startswith("VIOLATION") for l in out.splitlines()), first=det[0][:300] if det else "",
                tail=last_line(out, r"^\[" + pid))


def main():
    prefix, pid, wt = sys.argv[1:4]
    also = []
    if "--also" in sys.argv:
        also = sys.argv[sys.argv.index("--also") + 1].split(",")
    notes = json.load(open(wt + "/notes.json"))
    env = dict(os.environ, PYTHONPATH=wt + "/src")
    assert sh("git status --porcelain --untracked-files=no", cwd=wt)[1].strip() == "", "worktree not clean"
    evdir = tempfile.mkdtemp(prefix="ingest_ev.")
    for m in ("m1", "m2"):
        if not os.path.exists(f"{wt}/{m}.diff"):
            print(pid, m, "no diff"); continue
        demo = f"demo_{m}.py"
        rc0, out0 = sh(f"/venv/bin/python {demo}", cwd=wt, env=env)
        c_ok = rc0 == 0 and bool(last_line(out0, r"^OK"))
        rc, out = sh(f"git apply {m}.diff", cwd=wt)
        if rc != 0:
            print(pid, m, "diff does not apply", out[:200]); continue
        try:
            files = sh("git status --porcelain --untracked-files=no", cwd=wt)[1].strip()
            rc1, out1 = sh(f"/venv/bin/python {demo}", cwd=wt, env=env)
            m_broken = rc1 != 0 and bool(last_line(out1, r"^BROKEN"))
            _, tout = sh("/venv/bin/python -m pytest -q -p no:cacheprovider --timeout=900 --continue-on-collection-errors 2>&1 | tail -3", cwd=wt, env=env)
            tests = last_line(tout, r"passed")
            t_ok = "152 passed" in tests and "4 failed" in tests and "1 error" in tests
            runs = {}
            r = run_check(pid, "quick", wt, evdir); runs[pid + ":quick"] = r
            if r["exit"] == 0:
                runs[pid + ":thorough"] = run_check(pid, "thorough", wt, evdir)
            for o in also:
                runs[o + ":quick"] = run_check(o, "quick", wt, evdir)
        finally:
            sh("git checkout -- .", cwd=wt)
        caught = [k for k, v in runs.items() if v["exit"] == 1]
        broken = [k for k, v in runs.items() if v["exit"] not in (0, 1)]
        confirmed = c_ok and m_broken and t_ok
        print(f"{pid} {m}: demo clean={'OK' if c_ok else 'NOT-OK'} mutated={'BROKEN' if m_broken else 'NOT-BROKEN'} tests=[{tests}] caught_by={caught or 'NOTHING'} machinery={broken}")
        for k, v in runs.items():
            print("    ", k, v["exit"], v["tail"], "|", v["first"][:200])
        if not confirmed:
            print("   NOT CONFIRMED, not kept:", last_line(out0, r"."), "//", last_line(out1, r"."))
            continue
        d = f"{ROOT}/seeded/{prefix}_{pid}_{m}"
        os.makedirs(d, exist_ok=True)
        shutil.copy(f"{wt}/{m}.diff", d + "/patch.diff")
        shutil.copy(f"{wt}/{demo}", d + "/demo.py")
        n = notes.get(m, {})
        meta = dict(property=pid, origin=f"round {prefix}: independent sub-agent given only the property record, the list of earlier changes to avoid, and a scratch worktree; asked for changes that need something specific to manifest",
                    what=n.get("what"), breaks=n.get("breaks"), agent_reported={k: n.get(k) for k in ("tests", "demo_clean", "demo_mutated")},
                    confirmed_by_me=f"{pid} {m} clean=[{last_line(out0, r'^OK')[:120]}] mutated=[{last_line(out1, r'^BROKEN')[:160]}] tests=[{tests}] files: {files}",
                    first_pass=dict(caught_by=caught, runs=runs), also=also)
        json.dump(meta, open(d + "/meta.json", "w"), indent=1)
    shutil.rmtree(evdir, ignore_errors=True)


if __name__ == "__main__":
    main()
