#!/venv/bin/python
"""diagnostic only: group rejected hydro traces by the clause that fails (mirrors TraceHydro.tla)"""
import json, glob, sys, collections
P = sys.argv[1]
def dflux(vw): return 4 if vw <= 9000000 else (3 if vw <= 9700000 else 2)
c = collections.Counter(); ex = {}
for f in glob.glob(f'/verif/replays/{P}/*.json'):
    tr = json.load(open(f)); su = tr['ev'][0]
    if 'vJ' not in su: c[('setup', su.get('out'))] += 1; ex[('setup', su.get('out'))] = tr['id']; continue
    for ev in tr['ev'][1:]:
        bad = []
        if ev['e'] == 'Match':
            if ev['out'] != 'ok': bad.append('out:' + ev['out'])
            else:
                vw = ev['vw']; fam = 'det' if vw > su['vJ'] else ('hyb' if vw > ev['csm'] else 'def')
                near = abs(vw - su['vJ']) <= 2000 or abs(vw - ev['csm']) <= 2000
                if ev['fallback'] and not vw < su['vMin'] + 100000: bad.append('fallback')
                if P == 'C02':
                    for k in ('dE', 'dM', 'dC1', 'dC2'):
                        if ev[k] < dflux(vw): bad.append(f'{k}<{dflux(vw)}:{fam}')
                    if not ev['success']: bad.append('unconverged:' + fam)
                if P == 'C03':
                    if vw <= su['vJ'] and ev['dTn'] < 4: bad.append(f'dTn={ev["dTn"]}:{fam}')
                    if vw <= su['vJ'] and ev['csConst'] and ev['dMom'] < 4: bad.append(f'dMom={ev["dMom"]}:{fam}')
                    if ev['dKappa'] < 2: bad.append(f'dKappa={ev["dKappa"]}:{fam}')
                if P == 'C06' and not near:
                    if fam == 'def' and not (abs(ev['vm'] - vw) <= 30 and ev['vp'] < ev['vm'] and ev['Tp'] > 1000000): bad.append('def-rel')
                    if fam == 'hyb' and not (abs(ev['vm'] - ev['csm']) <= 30 and ev['vp'] < ev['vm'] and ev['Tp'] > 1000000): bad.append('hyb-rel:' + ('vp>=vm' if ev['vp'] >= ev['vm'] else 'other'))
                    if fam == 'det' and not (ev['vp'] == vw and ev['vm'] < ev['vp'] and ev['vm'] >= ev['csm'] - 30): bad.append('det-rel')
                if P == 'C15' and su['isTemplate']:
                    if ev.get('tOut') != 'ok': bad.append('tOut:' + str(ev.get('tOut')))
                    elif not near:
                        if not (abs(ev['vp'] - ev['tvp']) <= 1000 and abs(ev['vm'] - ev['tvm']) <= 1000): bad.append('v-agree:' + fam)
                        if not (abs(ev['Tp'] - ev['tTp']) <= 100 and abs(ev['Tm'] - ev['tTm']) <= 100): bad.append('T-agree:' + fam)
                        if ev['dC1t'] < 3 or ev['dC2t'] < 3: bad.append('c-agree:' + fam)
                        if ev.get('dKappaT', 9) < 2: bad.append(f'kappa-agree={ev.get("dKappaT")}:{fam}')
        if ev['e'] == 'LTE':
            if ev['out'] != 'ok': bad.append('lte-out:' + ev['out'])
            elif P == 'C15' and su['isTemplate'] and (ev.get('tret') != ev['ret'] or (ev['ret'] == 'root' and abs(ev['v'] - ev['tv']) > 1000)): bad.append(f"lte-agree:{ev['ret']}/{ev.get('tret')}")
            elif P == 'C05': bad.append('lte-clause:' + ev['ret'] + ':succ=' + str(ev.get('success')))
        for b in bad[:1]:
            c[b] += 1; ex.setdefault(b, tr['id'] + '@' + str(ev.get('vw', '')))
        if bad: break
for k, v in sorted(c.items(), key=str): print(v, k, ex[k])
