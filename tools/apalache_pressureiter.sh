#!/bin/bash
# Unbounded safety of PressureIter.tla by an inductive invariant (Apalache): any maxIterations, any number of passes.
#   1. Init => IndInv      2. IndInv /\ Next => IndInv'      3. IndInv => SuccIffConverged /\ MeanIffCap
# prints one line per obligation; exit 0 iff all three are discharged.
cd "$(dirname "$0")/../spec" || exit 2
out=$(mktemp -d /tmp/apa.XXXXXX); rc=0
run() { r=$(timeout 900 apalache-mc check "$@" --out-dir="$out" MC_PressureIter.tla 2>&1 | grep -E "The outcome is" | sed 's/ *I@.*//'); echo "$1 $2 $3 :: $r"; echo "$r" | grep -q NoError || rc=1; }
run --init=Init --inv=IndInv --length=0
run --init=IndInit --inv=IndInv --length=1
run --init=IndInit --inv=Safety --length=0
rm -rf "$out"; exit $rc
