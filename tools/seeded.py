#!/venv/bin/python
"""Apply every seeded change under /verif/seeded/<name>/ (patch.diff + meta.json) to /repo, run the checks of the
property it was written against (quick first, thorough if quick stays silent; plus any check named in meta["also"]),
undo the change, and write seeded/RESULTS.json + seeded/RESULTS.md.  Evidence of these runs goes to a scratch
directory so that /verif/evidence keeps describing the unchanged tree.

usage: tools/seeded.py [--wt <scratch worktree of /repo>] [name ...]        (default: all)

With --wt the change is applied to that scratch worktree and the checks import WallGo from it (WALLGO_SRC), so /repo is
not touched and a sweep can run next to other work; without it the change is applied to /repo itself and undone.
"""
import json, os, subprocess, sys, tempfile, time, shutil

ROOT = os.path.dirname(os.path.dirname(os.path.abspath(__file__)))
SEED = os.path.join(ROOT, "seeded")
REPO = "/repo"


def sh(cmd, **kw):
    return subprocess.run(cmd, shell=True, capture_output=True, text=True, **kw)


def clean():
    return sh(f"git -C {REPO} status --porcelain").stdout.strip() == ""


def run_check(pid, tier, evdir):
    env = dict(os.environ, VERIF_EVIDENCE_DIR=evdir, VERIF_NO_SELFTEST="1")
    if REPO != "/repo":
        env["WALLGO_SRC"] = REPO + "/src"
    t0 = time.time()
    p = subprocess.run([os.path.join(ROOT, "check"), pid, "--tier", tier], capture_output=True, text=True, env=env, cwd=ROOT)
    out = p.stdout + p.stderr
    viol = [l for l in out.splitlines() if l.startswith("VIOLATION")]
    det = [l.strip() for l in out.splitlines() if l.strip().startswith("detail:")]
    return dict(tier=tier, exit=p.returncode, violations=len(viol), first=(det[0][:300] if det else ""), wall_s=round(time.time() - t0, 1),
                tail=out.strip().splitlines()[-1][:300] if out.strip() else "")


def main():
    global REPO
    args = sys.argv[1:]
    if args[:1] == ["--wt"]:
        REPO = os.path.abspath(args[1]); args = args[2:]
    names = args or sorted(d for d in os.listdir(SEED) if os.path.isfile(os.path.join(SEED, d, "patch.diff")))
    if not clean():
        print("refusing: /repo working tree is not clean"); return 2
    resf = os.path.join(SEED, "RESULTS.json")
    results = json.load(open(resf)) if os.path.exists(resf) else {}
    evdir = tempfile.mkdtemp(prefix="seeded_ev.")
    try:
        for name in names:
            d = os.path.join(SEED, name)
            meta = json.load(open(os.path.join(d, "meta.json")))
            pid = meta["property"]
            a = sh(f"git -C {REPO} apply {os.path.join(d, 'patch.diff')}")
            if a.returncode != 0:
                results[name] = dict(property=pid, what=meta.get("what"), error="patch does not apply: " + a.stderr[:200]); print(name, "PATCH FAILED"); continue
            try:
                runs = {}
                r = run_check(pid, "quick", evdir); runs[pid + ":quick"] = r
                if r["exit"] == 0:
                    runs[pid + ":thorough"] = run_check(pid, "thorough", evdir)
                for other in meta.get("also", []):
                    runs[other + ":quick"] = run_check(other, "quick", evdir)
            finally:
                sh(f"git -C {REPO} checkout -- .")
            caught = [k for k, v in runs.items() if v["exit"] == 1]
            broken = [k for k, v in runs.items() if v["exit"] not in (0, 1)]
            results[name] = dict(property=pid, what=meta.get("what"), breaks=meta.get("breaks"), caught_by=caught, machinery_failure=broken, runs=runs,
                                 out_of_domain=meta.get("out_of_domain"))
            print(name, "caught by", caught or "NOTHING", ("machinery failure in " + str(broken)) if broken else "")
            merged = json.load(open(resf)) if os.path.exists(resf) else {}      # another sweep may be writing too
            merged[name] = results[name]
            json.dump(merged, open(resf, "w"), indent=1)
    finally:
        shutil.rmtree(evdir, ignore_errors=True)
        assert clean(), REPO + " left dirty"
    results = json.load(open(resf)) if os.path.exists(resf) else results
    with open(os.path.join(SEED, "RESULTS.md"), "w") as f:
        f.write("| seeded change | property | what was changed | caught by | first rejected observation |\n|---|---|---|---|---|\n")
        for name in sorted(results):
            r = results[name]
            first = ""
            for k in r.get("caught_by", []):
                first = r["runs"][k]["first"].replace("|", "/")[:160]; break
            f.write(f"| {name} | {r['property']} | {str(r.get('what'))[:200].replace('|','/')} | {', '.join(r.get('caught_by', [])) or '**not caught**'} | {first} |\n")
    return 0


if __name__ == "__main__":
    sys.exit(main())
