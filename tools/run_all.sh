#!/bin/bash
# run every claimed check of one tier, sequentially; summary on stdout, logs in replays/logs (scratch)
tier=${1:-quick}
cd "$(dirname "$0")/.."
mkdir -p replays/logs
rc=0
for id in C01 C02 C03 C04 C05 C06 C07 C08 C09 C10 C11 C12 C13 C14 C15 C16 C17 C18 C19 C20; do
  s=$(date +%s)
  ./check $id --tier $tier > replays/logs/$id.$tier.log 2>&1
  c=$?
  e=$(( $(date +%s) - s ))
  echo "$id exit=$c ${e}s known=$(grep -c '^KNOWN-FINDING' replays/logs/$id.$tier.log) viol=$(grep -c '^VIOLATION' replays/logs/$id.$tier.log) :: $(grep '^\[' replays/logs/$id.$tier.log | tail -1)"
  [ $c -ne 0 ] && rc=1
done
exit $rc
