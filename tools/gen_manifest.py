#!/venv/bin/python
"""Regenerates /verif/MANIFEST.json from the table below (single source of truth for claims)."""
import json, os
ROOT = os.path.dirname(os.path.dirname(os.path.abspath(__file__)))
props = [json.loads(l) for l in open(os.path.join(ROOT, "properties.jsonl"))]

CLAIMS = {
 "C19": dict(
    category="model_checking", design_ref="DESIGN.md section 4 / C19",
    technique="TLA+ exact integer model of the stencil tables and offset logic (FiniteDiff.tla, tables exported from the working tree), exhaustive TLC; every TLC state replayed into helpers.derivative/gradient/hessian and the recorded calls validated by TLC against TraceFiniteDiff.tla",
    text="The exactness of every table row on monomials, the in-bounds guarantee and the side selection are decided exhaustively by TLC on the tables of the working tree (a finite algebraic statement, fully enumerated). Every lattice case is then executed on the real functions; TLC accepts the recorded call only if the evaluated stencil is the one the model prescribes, no point is outside the bounds, the result is exact to >= 11 digits relative to the conditioning, and the shapes follow the shape algebra.",
    note="trusted: TLC, the table exporter (rounds table entries to integers over 48 and flags non-integral ones), numpy polynomial evaluation as oracle; step sizes are dyadic so that lattice positions are exact in floating point"),
}
NA = {}

def main():
    checks = []
    for p in props:
        pid = p["id"]
        if pid in CLAIMS:
            c = CLAIMS[pid]
            checks.append({
                "property_id": pid,
                "quick_cmd": f"./check {pid} --tier quick",
                "thorough_cmd": f"./check {pid} --tier thorough",
                "evidence_file": f"/verif/evidence/{pid}.json",
                "replay_cmd_template": f"./check {pid} --replay {{path}}",
                "engine": "tlc",
                "level_claimed": {"category": c["category"], "text": c["text"], "design_ref": c["design_ref"]},
                "level_note": c["note"],
                "technique": c["technique"],
            })
    na = [{"property_id": p["id"], "reason": NA.get(p["id"], "check not built yet (work in progress; DESIGN.md section 7 gives the order of construction)")}
          for p in props if p["id"] not in CLAIMS]
    m = {"version": 1, "setup_cmd": "cd /verif && ./setup.sh",
         "hooks": {"guard": "WALLGO_VERIF_TRACE",
                   "enable": "no source hooks: checks import WallGo from /repo/src (current working tree) and wrap methods from the harness side; ./check sets WALLGO_VERIF_TRACE=1",
                   "baseline_off_cmd": "cd /repo && /venv/bin/python -m pytest -ra -q -p no:cacheprovider --timeout=900 --continue-on-collection-errors",
                   "source_commits": [], "add_only": True},
         "engines": [{"name": "tlc", "path": "/verif/harness/tlc.py", "serves_properties": sorted(CLAIMS),
                      "kind_free_text": "explicit TLA+ design models checked by TLC (exhaustive / simulation) + batched trace validation of recorded WallGo executions against Trace*.tla (TraceLib.tla protocol)"}],
         "checks": checks, "not_applicable": na,
         "notes": "Python measures, TLC judges: every verdict is a TLC result (design-model invariant, rejected trace, failed postcondition). See DESIGN.md."}
    json.dump(m, open(os.path.join(ROOT, "MANIFEST.json"), "w"), indent=1)
    print("claims:", sorted(CLAIMS), "not_applicable:", len(na))

if __name__ == "__main__":
    main()
