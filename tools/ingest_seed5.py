#!/venv/bin/python
"""Confirm round-5 seeded changes (layout <worktree>/out/<P>/{patch.diff,demo.py,meta.json}) in their scratch worktree and keep
them under /verif/seeded/agent5_<P>_m1/.  For each: clean tree -> demo OK / exit 0; with the change -> demo BROKEN / exit != 0 and
the unedited suite at 152 passed (+ the 5 environmental failures); then the owning check (quick; thorough if quick is silent) is
run against the worktree (WALLGO_SRC; /repo is never touched).      usage: tools/ingest_seed5.py <worktree> [--also P:Cxx,...]"""
import json, os, re, shutil, subprocess, sys, tempfile

ROOT = os.path.dirname(os.path.dirname(os.path.abspath(__file__)))


def sh(cmd, cwd=None, env=None, timeout=7200):
    p = subprocess.run(cmd, shell=True, capture_output=True, text=True, cwd=cwd, env=env, timeout=timeout)
    return p.returncode, (p.stdout + p.stderr)


def last_line(out, pat):
    ls = [l for l in out.splitlines() if re.search(pat, l)]
    return ls[-1].strip() if ls else ""


def run_check(pid, tier, wt, evdir):
    env = dict(os.environ, WALLGO_SRC=wt + "/src", VERIF_EVIDENCE_DIR=evdir, VERIF_NO_SELFTEST="1")
    rc, out = sh(f"{ROOT}/check {pid} --tier {tier}", cwd=ROOT, env=env)
    det = [l.strip() for l in out.splitlines() if l.strip().startswith("detail:")]
    return dict(tier=tier, exit=rc, violations=sum(l.startswith("VIOLATION") for l in out.splitlines()), first=det[0][:300] if det else "", tail=last_line(out, r"^\[" + pid))


def main():
    wt = os.path.abspath(sys.argv[1])
    also = {}
    if "--also" in sys.argv:
        for it in sys.argv[sys.argv.index("--also") + 1].split(","):
            p, o = it.split(":"); also.setdefault(p, []).append(o)
    env = dict(os.environ, PYTHONPATH=wt + "/src")
    evdir = tempfile.mkdtemp(prefix="ingest_ev.")
    sh("git checkout -- .", cwd=wt)
    for pid in sorted(os.listdir(wt + "/out")):
        d = f"{wt}/out/{pid}"
        if not os.path.exists(d + "/patch.diff"):
            continue
        meta = json.load(open(d + "/meta.json"))
        rc0, out0 = sh(f"/venv/bin/python {d}/demo.py", cwd=wt, env=env, timeout=1200)
        c_ok = rc0 == 0 and bool(last_line(out0, r"^OK"))
        rc, out = sh(f"git apply {d}/patch.diff", cwd=wt)
        if rc != 0:
            print(pid, "diff does not apply", out[:200]); continue
        try:
            rc1, out1 = sh(f"/venv/bin/python {d}/demo.py", cwd=wt, env=env, timeout=1200)
            m_broken = rc1 != 0 and bool(last_line(out1, r"^BROKEN"))
            _, tout = sh("/venv/bin/python -m pytest -q -p no:cacheprovider --timeout=900 --continue-on-collection-errors 2>&1 | tail -3", cwd=wt, env=env)
            tests = last_line(tout, r"passed")
            t_ok = "152 passed" in tests and "4 failed" in tests and "1 error" in tests
            runs = {}
            r = run_check(pid, "quick", wt, evdir); runs[pid + ":quick"] = r
            if r["exit"] == 0:
                runs[pid + ":thorough"] = run_check(pid, "thorough", wt, evdir)
            for o in also.get(pid, []):
                runs[o + ":quick"] = run_check(o, "quick", wt, evdir)
        finally:
            sh("git checkout -- .", cwd=wt)
        caught = [k for k, v in runs.items() if v["exit"] == 1]
        broken = [k for k, v in runs.items() if v["exit"] not in (0, 1)]
        confirmed = c_ok and m_broken and t_ok
        print(f"{pid}: demo clean={'OK' if c_ok else 'NOT-OK'} mutated={'BROKEN' if m_broken else 'NOT-BROKEN'} tests=[{tests}] caught_by={caught or 'NOTHING'} machinery={broken}", flush=True)
        for k, v in runs.items():
            print("    ", k, v["exit"], v["tail"], "|", v["first"][:200], flush=True)
        if not confirmed:
            print("   NOT CONFIRMED, not kept:", last_line(out0, r"."), "//", last_line(out1, r".")); continue
        dst = f"{ROOT}/seeded/agent5_{pid}_m1"
        os.makedirs(dst, exist_ok=True)
        shutil.copy(d + "/patch.diff", dst + "/patch.diff"); shutil.copy(d + "/demo.py", dst + "/demo.py")
        json.dump({"property": pid, "origin": "round agent5: independent sub-agent given only the property record, the list of earlier changes to avoid, and a scratch worktree; asked for one change per property that needs something specific to manifest",
                   "what": meta.get("what"), "breaks": meta.get("breaks"), "agent_reported": {k: meta.get(k) for k in ("tests", "demo_clean", "demo_mutated")},
                   "confirmed_by_me": f"clean=[{last_line(out0, r'^OK')[:160]}] mutated=[{last_line(out1, r'^BROKEN')[:200]}] tests=[{tests}]",
                   "first_pass": {"caught_by": caught, "runs": runs}, "also": also.get(pid, [])}, open(dst + "/meta.json", "w"), indent=1)
    shutil.rmtree(evdir, ignore_errors=True)


if __name__ == "__main__":
    main()
