#!/venv/bin/python
"""Refresh the table between the SEEDED-TABLE markers of DESIGN.md from seeded/RESULTS.json."""
import json, os, re
ROOT = os.path.dirname(os.path.dirname(os.path.abspath(__file__)))
res = json.load(open(os.path.join(ROOT, "seeded", "RESULTS.json")))
for name, r in res.items():            # reasons recorded in the seed's meta.json after the run count as well
    mp = os.path.join(ROOT, "seeded", name, "meta.json")
    if os.path.exists(mp):
        r["out_of_domain"] = json.load(open(mp)).get("out_of_domain") or r.get("out_of_domain")
rows = ["| seeded change | property | what was changed (abridged) | caught by |", "|---|---|---|---|"]
for name in sorted(res):
    r = res[name]
    what = re.sub(r"\s+", " ", str(r.get("what") or ""))[:150].replace("|", "/")
    caught = ', '.join(r.get('caught_by') or []) or ('not caught -- does not break the property: ' + str(r['out_of_domain'])[:160] if r.get('out_of_domain') else '**not caught**')
    rows.append(f"| {name} | {r['property']} | {what} | {caught} |")
n = len(res)
quick = sum(1 for r in res.values() if any(k.endswith(":quick") for k in r.get("caught_by") or []))
anyc = sum(1 for r in res.values() if r.get("caught_by"))
ood = sum(1 for r in res.values() if r.get("out_of_domain") and not r.get("caught_by"))
summary = (f"{n} seeded changes; {anyc} caught, {quick} of them already by a quick check, {anyc - quick} only by a thorough check; "
           f"{n - anyc - ood} not caught; {ood} not caught because the change does not break the property (outside its quantifier, or neutralised by a later repair; reasons in the table).")
p = os.path.join(ROOT, "DESIGN.md")
s = open(p).read()
a, b = s.index("<!-- SEEDED-TABLE-BEGIN -->"), s.index("<!-- SEEDED-TABLE-END -->")
s = s[:a] + "<!-- SEEDED-TABLE-BEGIN -->\n" + summary + "\n\n" + "\n".join(rows) + "\n" + s[b:]
open(p, "w").write(s)
print(summary)
