SPECIFICATION Spec
CONSTANTS
  MMAX = 5
  NMAX = 5
  RMAX = 2
INVARIANT LengthsAgree
INVARIANT RestrictedVanish
INVARIANT HalfWeightsAtKeptEnds
INVARIANT QuadratureRoom
INVARIANT AxisLocal
