SPECIFICATION Spec
CONSTANTS
  NF = 2
INVARIANT GroupOK
INVARIANT EmitJob
