SPECIFICATION SSpec
CONSTANTS
  Calls = {"info", "lte", "solve", "deton", "matching"}
  BadInputs = {"same", "order"}
  NR = 1
  D = 7
CONSTRAINT Bound
INVARIANT Emit
CHECK_DEADLOCK FALSE
