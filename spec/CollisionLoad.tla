---------------------------- MODULE CollisionLoad ----------------------------
(***************************************************************************)
(* C14.  Loading a directory of collision files into a BoltzmannSolver.     *)
(*                                                                          *)
(* Part 1 -- loader protocol (CollisionArray.newFromDirectory +             *)
(* BoltzmannSolver.loadCollisions).  Particles 1..NP, one file per ordered  *)
(* pair, visited in row-major order.  A file is ok / missing / otherSize    *)
(* (basis size NS2 instead of NS) / otherBasis.  Per file the code: opens   *)
(* it (missing => CollisionLoadError), compares the target size with THIS   *)
(* file's size (target larger => CollisionLoadError), remembers the first   *)
(* file's size and basis or compares with them, copies the dataset.  Only   *)
(* when every pair has been copied is the array built, interpolated if the  *)
(* stored size exceeds the target, converted to the requested basis and     *)
(* returned; the solver assigns its attribute only on return.               *)
(* StrictErrors = TRUE is the property (every failing load ends in a        *)
(* CollisionLoadError); FALSE transcribes the code as found (inter-file     *)
(* mismatch is an `assert`).                                                *)
(*                                                                          *)
(* Part 2 -- index provenance of interpolateCollisionArray.  Polynomial.    *)
(* evaluate along axes (1,2) returns (points, a, b, j, k); the result is    *)
(* truncated in j,k and reshaped to (a, pz, pp, b, j, k).  The reshape is   *)
(* modelled as numpy does it (row-major flatten / split).  MoveAxis = FALSE *)
(* transcribes the code as found; TRUE moves the point axis behind `a`      *)
(* first.  PairLocal / PointOrder say where each output entry must come     *)
(* from.                                                                    *)
(***************************************************************************)
EXTENDS Integers, Sequences, FiniteSets, TLC, Json

CONSTANTS NP, NS, NS2, StrictErrors, MoveAxis, TargetSizes, MAXF   \* MAXF: most faulty files per pattern

Pairs == (1..NP) \X (1..NP)
Status == {"ok", "missing", "otherSize", "otherBasis"}
Order(pr) == (pr[1] - 1) * NP + pr[2]            \* row-major position 1..NP^2
PairAt(k) == CHOOSE pr \in Pairs : Order(pr) = k

SizeOf(st) == IF st = "otherSize" THEN NS2 ELSE NS
BasisOf(st) == IF st = "otherBasis" THEN "B2" ELSE "B1"

VARIABLES files, nt, solver, pc, idx, firstSize, firstBasis, copied, out
vars == <<files, nt, solver, pc, idx, firstSize, firstBasis, copied, out>>

Init == /\ files \in [Pairs -> Status]
        /\ Cardinality({pr \in Pairs : files[pr] # "ok"}) <= MAXF
        /\ nt \in TargetSizes
        /\ solver \in {"none", "old"}            \* with or without a previously loaded array
        /\ pc = "idle" /\ idx = 1 /\ firstSize = 0 /\ firstBasis = "unset"
        /\ copied = {} /\ out = "none"

Start == pc = "idle" /\ pc' = "loop" /\ UNCHANGED <<files, nt, solver, idx, firstSize, firstBasis, copied, out>>

Fail(kind) == /\ pc' = "done" /\ out' = kind
              /\ UNCHANGED <<files, nt, solver, idx, firstSize, firstBasis, copied>>

MismatchKind == IF StrictErrors THEN "CollisionLoadError" ELSE "AssertionError"

Visit ==
    /\ pc = "loop" /\ idx <= NP * NP
    /\ LET pr == PairAt(idx)
           st == files[pr] IN
       IF st = "missing" THEN Fail("CollisionLoadError")
       ELSE IF nt > SizeOf(st) THEN Fail("CollisionLoadError")
       ELSE IF firstBasis = "unset"
       THEN /\ firstSize' = SizeOf(st) /\ firstBasis' = BasisOf(st)
            /\ copied' = copied \cup {pr} /\ idx' = idx + 1
            /\ UNCHANGED <<files, nt, solver, pc, out>>
       ELSE IF SizeOf(st) # firstSize \/ BasisOf(st) # firstBasis THEN Fail(MismatchKind)
       ELSE /\ copied' = copied \cup {pr} /\ idx' = idx + 1
            /\ UNCHANGED <<files, nt, solver, pc, firstSize, firstBasis, out>>

\* build (same size) or interpolate (smaller target), change basis, return, install
Finish ==
    /\ pc = "loop" /\ idx = NP * NP + 1
    /\ pc' = "done" /\ out' = "ok" /\ solver' = "new"
    /\ UNCHANGED <<files, nt, idx, firstSize, firstBasis, copied>>

Next == Start \/ Visit \/ Finish
Spec == Init /\ [][Next]_vars

(* functional summary of the protocol (used by the trace specification): the first pair in
   row-major order that fails decides the outcome *)
RECURSIVE Scan(_, _, _, _, _)
Scan(f, t, k, fs, fb) ==
    IF k > NP * NP THEN "ok"
    ELSE LET st == f[PairAt(k)] IN
         IF st = "missing" THEN "CollisionLoadError"
         ELSE IF t > SizeOf(st) THEN "CollisionLoadError"
         ELSE IF fb = "unset" THEN Scan(f, t, k + 1, SizeOf(st), BasisOf(st))
         ELSE IF SizeOf(st) # fs \/ BasisOf(st) # fb THEN MismatchKind
         ELSE Scan(f, t, k + 1, fs, fb)
LoadOutcome(f, t) == Scan(f, t, 1, 0, "unset")
RECURSIVE OpensUntil(_, _, _, _, _)
\* number of files successfully opened before the load stops
OpensUntil(f, t, k, fs, fb) ==
    IF k > NP * NP THEN NP * NP
    ELSE LET st == f[PairAt(k)] IN
         IF st = "missing" THEN k - 1          \* a missing file is looked for, not opened
         ELSE IF t > SizeOf(st) THEN k
         ELSE IF fb = "unset" THEN OpensUntil(f, t, k + 1, SizeOf(st), BasisOf(st))
         ELSE IF SizeOf(st) # fs \/ BasisOf(st) # fb THEN k
         ELSE OpensUntil(f, t, k + 1, fs, fb)
Opens(f, t) == OpensUntil(f, t, 1, 0, "unset")

(****************************** invariants *********************************)
\* the solver holds either what it held before or a complete new array
Atomic == /\ solver \in {"none", "old", "new"}
          /\ solver = "new" => (copied = Pairs /\ out = "ok")
          /\ (pc = "done" /\ out # "ok") => solver # "new"
AtomicStep == [][solver' # solver => (solver' = "new" /\ copied = Pairs)]_vars
ErrorKind == out \in {"none", "ok", "CollisionLoadError"}
SummaryAgrees == pc = "done" => out = LoadOutcome(files, nt)
CompleteIffAllGood ==
    (pc = "done" /\ out = "ok") <=>
       (pc = "done" /\ \A pr \in Pairs : files[pr] # "missing" /\ nt <= SizeOf(files[pr])
                         /\ SizeOf(files[pr]) = SizeOf(files[<<1, 1>>])
                         /\ BasisOf(files[pr]) = BasisOf(files[<<1, 1>>]))

(************************* part 2: index provenance ************************)
\* n = target size - 1 ; shapes: evaluated (n*n, NP, NP, n, n) ; output (NP, n, n, NP, n, n)
Flat5(n, q, a, b, j, k) == ((((q * NP + a) * NP + b) * n + j) * n + k)      \* 0-based
\* inverse of the row-major flat index for shape (d1..d5) (0-based components)
Unravel5(n, fl) ==
    LET k == fl % n
        r1 == fl \div n
        j == r1 % n
        r2 == r1 \div n
        b == r2 % NP
        r3 == r2 \div NP
        a == r3 % NP
        q == r3 \div NP
    IN [q |-> q, a |-> a, b |-> b, j |-> j, k |-> k]
\* flat index of output entry (a, al, be, b, j, k) in shape (NP, n, n, NP, n, n)
Flat6(n, a, al, be, b, j, k) == (((((a * n + al) * n + be) * NP + b) * n + j) * n + k)

\* where output entry (a, al, be, b, j, k) comes from
Provenance(n, a, al, be, b, j, k) ==
    IF MoveAxis
    THEN \* evaluated array rearranged to (a, q, b, j, k) before the reshape
         [q |-> al * n + be, a |-> a, b |-> b, j |-> j, k |-> k]
    ELSE Unravel5(n, Flat6(n, a, al, be, b, j, k))

Idx(n) == 0..(n - 1)
PairLocalFor(n) == \A a, b \in 0..(NP - 1), al, be, j, k \in Idx(n) :
    LET p == Provenance(n, a, al, be, b, j, k) IN
    /\ p.a = a /\ p.b = b                       \* PairLocal
    /\ p.q = al * n + be                        \* PointOrder (meshgrid indexing "ij")
    /\ p.j = j /\ p.k = k
PairLocal == \A t \in TargetSizes : t >= 3 => PairLocalFor(t - 1)
PairLocalInv == (pc = pc) /\ PairLocal

(* fault-pattern generator: every initial state is one (pattern, target size, previous array)
   case replayed into the real BoltzmannSolver.loadCollisions *)
EmitInit == pc = "idle" =>
    PrintT(ToJson([files |-> [k \in 1..(NP * NP) |-> files[PairAt(k)]], nt |-> nt, prev |-> solver]))
=============================================================================
