---------------------------- MODULE DetonSearch ----------------------------
(***************************************************************************)
(* EOM.findWallVelocityDetonation (equationOfMotion.py): a scan of the      *)
(* detonation branch [vmin, vmax] with an adaptive step bounded by          *)
(*   stepMin = (vmax - vmin)/(nbrPointsMax - 1),                            *)
(*   stepMax = (vmax - vmin)/(nbrPointsMin - 1),                            *)
(* which hands every pair of consecutive probes with  P <= 0 <= P'  to the  *)
(* bracketed root search, and otherwise classifies the outcome from the     *)
(* signs of the first and the last pressure.                                *)
(*                                                                          *)
(* Velocities are integers (a lattice 0..K in the design model, ticks when  *)
(* a recorded run is validated).  P is what is known of the sign of the     *)
(* pressure (total and arbitrary in the design model).                      *)
(***************************************************************************)
EXTENDS Integers, Sequences, FiniteSets, TLC

CONSTANTS K, SMIN, SMAX, ONLYSMALLEST,
          SLACK      \* rounding slack of a step in ticks (0 on the lattice)
VARIABLES P, vmin, vmax, smin, smax, only,
          pc, v2, s2, sIni, probes, roots, res
vars == <<P, vmin, vmax, smin, smax, only, pc, v2, s2, sIni, probes, roots, res>>

Know(v, s) == IF v \in DOMAIN P THEN P[v] = s /\ P' = P ELSE P' = (v :> s) @@ P
Min(a, b) == IF a < b THEN a ELSE b

Start(s) ==
    /\ pc = "start"
    /\ Know(vmin, s)
    /\ v2' = vmin /\ s2' = s /\ sIni' = s /\ probes' = <<vmin>>
    /\ pc' = "scan"
    /\ UNCHANGED <<vmin, vmax, smin, smax, only, roots, res>>

\* the next probe: at least stepMin and at most stepMax ahead, never beyond vmax
StepOK(v3) == /\ v3 > v2 - SLACK /\ v3 <= vmax
              /\ v3 >= Min(vmax, v2 + smin) - SLACK
              /\ v3 <= Min(vmax, v2 + smax + SLACK)

\* last candidate is vmax and the pressure is positive: nothing to find there, stop without evaluating
SkipLast(v3) ==
    /\ pc = "scan" /\ v2 < vmax /\ StepOK(v3)
    /\ v3 = vmax /\ s2 > 0
    /\ pc' = "classify"
    /\ UNCHANGED <<P, vmin, vmax, smin, smax, only, v2, s2, sIni, probes, roots, res>>

Probe(v3, s3) ==
    /\ pc = "scan" /\ v2 < vmax /\ StepOK(v3)
    \* (on recorded runs the shortcut is taken only when the candidate equals vmax exactly in floating point: a candidate
    \*  that rounding leaves an ulp below vmax is evaluated although the pressure is positive -- second named deviation)
    /\ SLACK > 0 \/ ~(v3 = vmax /\ s2 > 0)
    /\ Know(v3, s3)
    /\ probes' = Append(probes, v3)
    /\ LET root == s3 >= 0 /\ 0 >= s2 IN
       /\ roots' = IF root THEN Append(roots, <<v2, v3>>) ELSE roots
       /\ pc' = IF root /\ only THEN "classify" ELSE "scan"
    /\ v2' = v3 /\ s2' = s3
    /\ UNCHANGED <<vmin, vmax, smin, smax, only, sIni, res>>

\* Deviation of the code, named: the scan variable accumulates rounding, so the loop test  vw2 < vmax  can still hold when the
\* last probe already sits at vmax to within rounding -- the code then evaluates the pressure at vmax a second time.
\* (Only possible with SLACK > 0, i.e. on recorded runs; wasteful, and the bracket [vmax - ulp, vmax] is never a root bracket
\* unless the pressure is exactly zero.)
ReprobeAtEnd(s3) ==
    /\ pc = "scan" /\ SLACK > 0 /\ v2 < vmax + SLACK /\ v2 >= vmax - SLACK /\ ~(s2 > 0)
    /\ Know(vmax, s3) /\ s3 = s2
    /\ pc' = "classify"
    /\ UNCHANGED <<vmin, vmax, smin, smax, only, v2, s2, sIni, probes, roots, res>>

ScanDone == /\ pc = "scan" /\ v2 >= vmax /\ pc' = "classify"
            /\ UNCHANGED <<P, vmin, vmax, smin, smax, only, v2, s2, sIni, probes, roots, res>>

Classify ==
    /\ pc = "classify"
    /\ res' = IF Len(roots) > 0 THEN "ROOTS"
              ELSE IF sIni > 0 /\ s2 < 0 THEN "DEFLAGRATION_OR_RUNAWAY"
              ELSE IF sIni > 0 /\ s2 > 0 THEN "DEFLAGRATION"
              ELSE "RUNAWAY"
    /\ pc' = "done"
    /\ UNCHANGED <<P, vmin, vmax, smin, smax, only, v2, s2, sIni, probes, roots>>

Signs == {-1, 0, 1}
Init == /\ P \in [0..K -> Signs] /\ vmin = 0 /\ vmax = K /\ smin = SMIN /\ smax = SMAX /\ only = ONLYSMALLEST
        /\ pc = "start" /\ v2 = 0 /\ s2 = 0 /\ sIni = 0 /\ probes = <<>> /\ roots = <<>> /\ res = "none"
Next == \/ \E s \in Signs : Start(s)
        \/ \E v \in 0..K : SkipLast(v) \/ \E s \in Signs : Probe(v, s)
        \/ ScanDone \/ Classify
Spec == Init /\ [][Next]_vars

(****************************** properties *********************************)
Done == pc = "done"
\* every reported bracket is a pair of CONSECUTIVE probes with the pressure not positive below and not negative above
RootsSound == \A r \in 1..Len(roots) :
    LET b == roots[r] IN
    /\ \E j \in 1..(Len(probes) - 1) : probes[j] = b[1] /\ probes[j + 1] = b[2]
    /\ P[b[1]] <= 0 /\ P[b[2]] >= 0
\* no crossing between consecutive probes is overlooked (when all roots are asked for)
NoneMissed == (Done /\ ~only) =>
    \A j \in 1..(Len(probes) - 1) :
        (P[probes[j]] <= 0 /\ P[probes[j + 1]] >= 0) => \E r \in 1..Len(roots) : roots[r] = <<probes[j], probes[j + 1]>>
\* ... and with onlySmallest the one reported is the first such pair
FirstReported == (Done /\ only /\ Len(roots) > 0) =>
    /\ Len(roots) = 1
    /\ \A j \in 1..(Len(probes) - 2) : ~(P[probes[j]] <= 0 /\ P[probes[j + 1]] >= 0)
\* the three verdicts without a root say what they claim about the probed pressures
VerdictSound == Done =>
    /\ res = "DEFLAGRATION" => \A j \in 1..Len(probes) : P[probes[j]] > 0          \* "the pressure is always positive"
    /\ res = "DEFLAGRATION_OR_RUNAWAY" => (P[probes[1]] > 0 /\ P[probes[Len(probes)]] < 0)
    /\ res = "RUNAWAY" => \A j \in 2..Len(probes) : P[probes[j]] <= 0               \* never positive after the first probe
\* the scan covers the branch: it ends at vmax, at a root (onlySmallest), or one step short of vmax with a positive pressure
Covers == Done => \/ probes[Len(probes)] = vmax
                  \/ (only /\ Len(roots) > 0)
                  \/ (P[probes[Len(probes)]] > 0 /\ probes[Len(probes)] + smax + SLACK >= vmax)
StepsBounded == \A j \in 1..(Len(probes) - 1) :
    /\ probes[j + 1] - probes[j] <= smax + SLACK
    /\ probes[j + 1] - probes[j] >= smin - SLACK \/ probes[j + 1] = vmax
=============================================================================
