------------------------------ MODULE WallProfile ------------------------------
(***************************************************************************)
(* C04 and C09: the two computations inside one pressure evaluation.        *)
(*                                                                          *)
(* Profile (C04).  EOM.findPlasmaProfile solves, grid point by grid point,  *)
(* the two conservation equations T30 = c1, T33 = c2 for (T, v).  Per point *)
(* the code: minimises the residual function over T; if the minimum is      *)
(* already >= 0 it takes the minimiser ("minimumOnly"); otherwise it walks  *)
(* a bracket away from the minimiser -- upwards, except for detonations     *)
(* (T+ = Tn) downwards -- for at most 100 steps and solves for the root on  *)
(* that side ("root"), or gives up ("none").  The profile is successful iff *)
(* no point gave up.  The environment chooses the outcome per point.        *)
(*                                                                          *)
(* Pressure (C09).  The pressure on a wall in a uniform plasma is a pure    *)
(* obligation: for every shape in the declared domain it must equal the     *)
(* free-energy difference.                                                  *)
(***************************************************************************)
EXTENDS Integers, Sequences, FiniteSets, TLC

CONSTANT G                       \* number of grid points in the design model

Outcomes == {"root", "minimumOnly", "none"}
VARIABLES deton,                 \* detonation branch (T+ = Tn)?
          i, out, side, succ, pcp
vars == <<deton, i, out, side, succ, pcp>>

Init == /\ deton \in BOOLEAN
        /\ i = 1 /\ out = <<>> /\ side = <<>> /\ succ = TRUE /\ pcp = "points"

PointSolve(o) ==
    /\ pcp = "points" /\ i <= G
    /\ out' = Append(out, o)
    \* a root is searched above the minimiser, except on the detonation branch
    /\ side' = Append(side, IF o = "root" THEN (IF deton THEN "below" ELSE "above") ELSE "at")
    /\ succ' = (succ /\ o # "none")
    /\ i' = i + 1
    /\ UNCHANGED <<deton, pcp>>
ProfileDone == /\ pcp = "points" /\ i = G + 1 /\ pcp' = "done" /\ UNCHANGED <<deton, i, out, side, succ>>

Next == (\E o \in Outcomes : PointSolve(o)) \/ ProfileDone
Spec == Init /\ [][Next]_vars

SuccIffNoGiveUp == pcp = "done" => (succ <=> \A k \in 1..Len(out) : out[k] # "none")
BranchRight == \A k \in 1..Len(out) : out[k] = "root" => side[k] = (IF deton THEN "below" ELSE "above")
\* only a root satisfies both conservation equations: a point that took the bare minimiser does not
\* (named deviation of the code: it still counts as a success)
ConservedWhereRoot(k) == out[k] = "root"
=============================================================================
