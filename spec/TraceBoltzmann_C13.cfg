SPECIFICATION TSpec
CONSTANTS
  Sizes <- SizesLarge
  NSizes = {3, 5, 7, 9, 11, 13, 15}
  MaxP = 2
  PROP = "C13"
CONSTRAINT Progress
INVARIANT JobOK
POSTCONDITION TraceAccepted
CHECK_DEADLOCK FALSE
