------------------------------ MODULE Covariance ------------------------------
(***************************************************************************)
(* C07 C08.  Hyperproperties of the whole pipeline, written as a product    *)
(* state: the same physical model is run in several REPRESENTATIONS and the *)
(* results must be related by the representation change.                    *)
(*                                                                          *)
(* Units (C07): representations are unit factors s; dimensionless outputs   *)
(* are equal, dimensionful outputs scale with the stated power of s, and    *)
(* the DISCRETE outcome (solution type, success, flags of the phase tables) *)
(* is identical -- an un-rescaled absolute tolerance typically changes      *)
(* which branch or stop reason occurs, not a converged number.              *)
(*                                                                          *)
(* Field relabelling (C08): representations are group elements              *)
(* g = (perm, sign, shift); velocities and temperatures are invariant,      *)
(* widths are permuted, phase locations and profiles transform as           *)
(* phi'_j = sign_j phi_perm(j) + shift_j, and DIFFERENCES of wall centres   *)
(* are permuted (the first offset is pinned to zero, so absolute offsets    *)
(* depend on the labelling).                                                *)
(***************************************************************************)
EXTENDS Integers, Sequences, FiniteSets, TLC, Json

CONSTANTS NF             \* number of fields of the relabelled model (2: TwoField, 3: ThreeField of harness/models.py)

Perms == {p \in [1..NF -> 1..NF] : \A a, b \in 1..NF : a # b => p[a] # p[b]}
Signs == [1..NF -> {-1, 1}]
Shifts == {0, 1, 2}      \* index into the harness' table of translation vectors
Group == [perm : Perms, sign : Signs, shift : Shifts]
Identity == [perm |-> [j \in 1..NF |-> j], sign |-> [j \in 1..NF |-> 1], shift |-> 0]

Scales == {-2, -1, 0, 1, 2}            \* unit factor 10^k

VARIABLE job
vars == <<job>>
Init == job = [active |-> FALSE]
UnitsJob(model, setting) == ~job.active /\ job' = [active |-> TRUE, kind |-> "units", model |-> model, setting |-> setting, scales |-> Scales]
RelabelJob(g) == ~job.active /\ g # Identity /\ job' = [active |-> TRUE, kind |-> "relabel", g |-> g]
Done == job.active /\ job' = [active |-> FALSE]
Next == (\E m \in {"one", "two", "three"}, st \in {"default", "tight"} : UnitsJob(m, st)) \/ (\E g \in Group : RelabelJob(g)) \/ Done
Spec == Init /\ [][Next]_vars

\* group facts used by the relations: every element has an inverse, permuting twice composes
Compose(g, h) == [perm |-> [j \in 1..NF |-> h.perm[g.perm[j]]], sign |-> [j \in 1..NF |-> g.sign[j] * h.sign[g.perm[j]]], shift |-> 0]
GroupOK == job = job /\ \A g \in Group : \E h \in Group : Compose(g, h).perm = Identity.perm /\ Compose(g, h).sign = Identity.sign
\* expected action on a list of per-field quantities (widths)
Permute(q, g) == [j \in 1..NF |-> q[g.perm[j]]]
EmitJob == job.active => PrintT(ToJson(job))
=============================================================================
