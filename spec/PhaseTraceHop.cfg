SPECIFICATION Spec
CONSTANTS
  TL = 9
  DT = 2
  HopPossible = TRUE
INVARIANT SameBranch
INVARIANT OnlyWhereExists
INVARIANT FlagIffTruncated
INVARIANT CoversRequest
INVARIANT Margin
CHECK_DEADLOCK FALSE
