-------------------------- MODULE TraceDetonSearch --------------------------
(* Validates recorded runs of the real EOM.findWallVelocityDetonation (on scripted pressure functions) against               *)
(* DetonSearch.tla: every probe within the step bounds, every bracket handed to the root search a pair of consecutive         *)
(* probes with P <= 0 <= P', none overlooked, the verdict as the signs of the first and last pressure prescribe.              *)
EXTENDS DetonSearch, TraceLib
VARIABLE rootsSeen
TSetup ==
    /\ IsEvent("Setup") /\ pc = "setup"
    /\ vmin' = Ev.vmin /\ vmax' = Ev.vmax /\ smin' = Ev.smin /\ smax' = Ev.smax /\ only' = Ev.only
    /\ pc' = "start"
    /\ UNCHANGED <<P, v2, s2, sIni, probes, roots, res, rootsSeen>>
TProbe ==
    /\ IsEvent("Probe")
    /\ (Start(Ev.s) /\ Ev.v = vmin) \/ Probe(Ev.v, Ev.s) \/ (ReprobeAtEnd(Ev.s) /\ Ev.v = vmax)
    /\ UNCHANGED rootsSeen
TRoot ==
    /\ IsEvent("Root")
    /\ rootsSeen < Len(roots) /\ roots[rootsSeen + 1] = <<Ev.lo, Ev.hi>>
    /\ rootsSeen' = rootsSeen + 1
    /\ UNCHANGED vars
\* steps the code takes without calling anything: leaving the loop, classifying
TSilent == /\ (SkipLast(vmax) \/ ScanDone \/ Classify)
           /\ UNCHANGED <<tid, l, rootsSeen>>
TResult ==
    /\ IsEvent("Result") /\ pc = "done"
    /\ Ev.kind = res /\ rootsSeen = Len(roots)
    /\ Ev.n = (IF Len(roots) > 0 THEN Len(roots) ELSE 1)
    /\ UNCHANGED <<vars, rootsSeen>>
TInit == /\ TraceInitLib /\ P = [x \in {} |-> 0] /\ vmin = 0 /\ vmax = 0 /\ smin = 0 /\ smax = 0 /\ only = TRUE
         /\ pc = "setup" /\ v2 = 0 /\ s2 = 0 /\ sIni = 0 /\ probes = <<>> /\ roots = <<>> /\ res = "none" /\ rootsSeen = 0
TNext == TSetup \/ TProbe \/ TRoot \/ TSilent \/ TResult
TSpec == TInit /\ [][TNext]_<<vars, rootsSeen, tid, l>>
=============================================================================
