------------------------------ MODULE ThermalInt ------------------------------
(***************************************************************************)
(* C20.  Three representations of the thermal integrals J_b, J_f -- direct  *)
(* quadrature, the shipped interpolation tables, closed forms / series --   *)
(* on the regions  x < -20, [-20,0), 0, (0,1000], > 1000  of x = m^2/T^2,   *)
(* and the one-loop thermal potential built from them.  The property is an  *)
(* obligation matrix: which representations must agree where, to how many   *)
(* digits; a conformance run must discharge every cell.                     *)
(***************************************************************************)
EXTENDS Integers, Sequences, FiniteSets, TLC

Js == {"Jb", "Jf"}
Modes == {"NONE", "CONSTANT", "FUNCTION"}
ImOpts == {"ERROR", "ABS_ARGUMENT", "ABS_RESULT", "PRINCIPAL_PART"}

IntegralCells ==
    [J : Js, what : {"tableRe_neg", "tableIm_neg", "tableRe_pos", "imZero_pos", "tableAlt_neg", "tableSeries_pos",   \* rows of the shipped table vs direct quadrature
                      "interpSmooth", "interpKink", "tableDeriv",                    \* the spline between rows, and its derivative
                      "imClosed_neg", "reAlt_neg", "series_pos", "valueAtZero",      \* direct quadrature vs independent representations
                      "decay_large", "beyond_low", "beyond_high"}]
PotentialCells ==
    [pot : {"stefanBoltzmannTable", "stefanBoltzmannDirect", "heavySuppressed", "heavyBeyondTable", "thermalSum", "cwFormula",
            "continuousAtZero_direct", "continuousAtZero_table",
            "thermalSumUnits",          \* V_T / T^4 is a function of m^2/T^2 alone: unit systems with T from 1e-17 to 1e12
            "historyIndependent"}]      \* an integral object answers the same, and correctly, after a scan of 600 other arguments
    \cup [pot : {"continuousAtTableEnd"}, end : {"low", "high"}, mode : Modes]
    \cup [pot : {"imaginaryOption", "imaginaryOptionCW"}, opt : ImOpts, sign : {"pos", "neg"}]
Cells == IntegralCells \cup PotentialCells

(* digits of agreement demanded per cell.  Errors of the integrals are measured on the scale max(|J|, 1) -- J(0) is about -2 and  *)
(* the integrals enter the potential additively, so the relative error of an exponentially small tail value is of no concern.   *)
Bound(c) ==
    IF "J" \in DOMAIN c THEN
       CASE c.what \in {"tableRe_neg", "tableRe_pos"} -> 7       \* table written with 15 digits from the same quadrature (epsabs 1.5e-8)
         [] c.what = "tableIm_neg" -> 6
         [] c.what = "tableAlt_neg" -> 7                          \* rows with x < 0 vs closed-form Im / independent quadrature of Re
         [] c.what = "tableSeries_pos" -> 6                       \* rows with x > 0 vs the Bessel series on the scale max(|J|, 1e-4): sees corrupted small rows
         [] c.what = "imZero_pos" -> 16                           \* exactly zero
         [] c.what = "interpSmooth" -> 6                          \* cubic spline through rows 0.1 apart, J smooth
         [] c.what = "interpKink" -> 2                            \* within 1 of x = 0 (and of x = -pi^2 for J_f) J is not smooth: ~1e-3
         [] c.what = "tableDeriv" -> 4                            \* spline derivative vs differences of the direct integral
         [] c.what = "imClosed_neg" -> 7                          \* closed form of the imaginary part
         [] c.what = "reAlt_neg" -> 7                             \* independent quadrature of the real part
         [] c.what = "valueAtZero" -> 7                           \* -pi^4/45 , -7 pi^4/360
         [] c.what = "series_pos" -> 7                            \* Bessel-function series of the defining integral
         [] c.what = "decay_large" -> 7                           \* under the Boltzmann envelope x K2(sqrt x), non-positive, exact to 1e-7
         [] OTHER -> 1                                            \* beyond the table: finite, correct, continuous with the end value
    ELSE CASE c.pot = "stefanBoltzmannDirect" -> 7
           [] c.pot = "stefanBoltzmannTable" -> 3                 \* x = 0 lies between two rows next to the non-smooth point
           [] c.pot = "heavyBeyondTable" -> 10                    \* the same for m^2/T^2 from 1000.5 to 1e6, beyond the tables
           [] c.pot = "heavySuppressed" -> 10                     \* |V_T| / |V_SB| below 1e-10 at m^2/T^2 = 900
           [] c.pot = "thermalSum" -> 7
           [] c.pot = "thermalSumUnits" -> 7
           [] c.pot = "historyIndependent" -> 7
           [] c.pot = "cwFormula" -> 12
           [] c.pot \in {"continuousAtZero_direct", "continuousAtZero_table"} -> 6
           [] c.pot = "continuousAtTableEnd" -> 6
           [] OTHER -> 16                                         \* decision tables of the imaginary-part options: exact

VARIABLES done, worst
vars == <<done, worst>>
Init == done = {} /\ worst = 16
Discharge(c, d) == /\ c \in Cells /\ d >= Bound(c)
                   /\ done' = done \cup {c} /\ worst' = IF d < worst THEN d ELSE worst
Next == \E c \in Cells, d \in {1, 2, 3, 4, 6, 7, 10, 12, 16} : Discharge(c, d)
Spec == Init /\ [][Next]_vars
Complete == done = Cells
Small == Cardinality(done) <= 2
Monotone == [][done \subseteq done']_vars
CellCount == Cardinality(Cells) = 32 + 10 + 6 + 16
=============================================================================
