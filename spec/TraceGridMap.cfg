SPECIFICATION TSpec
CONSTANTS
  NL = 4
  NTAIL = 3
  NR = 2
  NS = 4
  NC = 2
  NTMP = 4
CONSTRAINT Progress
INVARIANT CacheFresh
INVARIANT AllScalesUpdated
INVARIANT AlwaysAdmissible
POSTCONDITION TraceAccepted
CHECK_DEADLOCK FALSE
