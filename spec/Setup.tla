-------------------------------- MODULE Setup --------------------------------
(***************************************************************************)
(* WallGoManager.setupThermodynamicsHydrodynamics (manager.py) as the       *)
(* sequence of steps the code takes, with its error exits, and the decision *)
(* table by which it chooses the temperature ranges over which the two      *)
(* phases are traced:                                                       *)
(*                                                                          *)
(*   validatePhaseInput        both minima found; equal -> PhaseValidation  *)
(*                             error; phase 1 lower in free energy -> same  *)
(*   initTemperatureRange      new Thermodynamics; template model LTE speed *)
(*                             (WallGoError -> PhaseValidationError);       *)
(*                             epsilon < 0 -> WallGoError; template         *)
(*                             matching at 0.99 vJ and at 1e-3 for T+max,   *)
(*                             T-max and the lower end, each replaced by    *)
(*                             the Hydrodynamics tmax / tmin times Tn when  *)
(*                             the template returns None; requests widened  *)
(*                             by the Thermodynamics tmin / tmax factors;   *)
(*                             tracePhase(high), tracePhase(low)            *)
(*   setExtrapolate                                                         *)
(*   Hydrodynamics(...)        with the Hydrodynamics tmax, tmin, rtol, atol*)
(*   Jouguet check             vJ not in [0,1] or not finite -> WallGoError *)
(*                                                                          *)
(* Temperatures are integers in ticks of 1e-4 Tn (Tn = U); configuration    *)
(* factors are in ticks of 1e-4.  The environment chooses the outcome of    *)
(* every step and the template model's answers.                             *)
(*                                                                          *)
(* Named deviation of the code (kept, it is what the code does): the lower  *)
(* end of the low-temperature phase's range is built from the THIRD element *)
(* of the template matching at vw = 1e-3, which is T+, although the comment *)
(* next to it speaks of the minimum of T-.                                  *)
(***************************************************************************)
EXTENDS Integers, Sequences, FiniteSets, TLC

U == 10000                           \* one unit (Tn, or a factor of 1) in ticks
CONSTANTS Temps,                     \* template temperatures / Tn in ticks the environment may return
          Factors                    \* configuration menus: [thMin, thMax, hyMin, hyMax] records
None == -1
\* menus of the exhaustive runs: Thermodynamics tmin/tmax x Hydrodynamics tmin/tmax (defaults 0.8, 1.2, 0.01, 10)
FactorMenu == [thMin : {8000, 9000, 10000}, thMax : {10000, 11000, 12000}, hyMin : {100, 5000}, hyMax : {20000, 100000}]

Mul(a, b) == (a * b) \div U          \* product of two tick quantities, in ticks

\* the decision table: requests as a function of the template answers and the configuration
OrElse(x, d) == IF x = None THEN d ELSE x
Requests(tpJ, tmJ, tpSlow, f) ==
    [tpJ |-> tpJ, tmJ |-> tmJ, tpSlow |-> tpSlow,
     highMin |-> Mul(U, f.thMin),
     highMax |-> Mul(OrElse(tpJ, Mul(f.hyMax, U)), f.thMax),
     lowMin  |-> Mul(OrElse(tpSlow, Mul(f.hyMin, U)), f.thMin),     \* named deviation: T+ of the slow wall
     lowMax  |-> Mul(OrElse(tmJ, Mul(f.hyMax, U)), f.thMax)]

Stages == {"start", "validated", "lteDone", "estimated", "tracedHigh", "tracedLow", "extrapolated", "hydro", "ready", "failed"}
VARIABLES pc, err, cfg, req, thermoNew, hydroNew, phasesNew
vars == <<pc, err, cfg, req, thermoNew, hydroNew, phasesNew>>

Init == /\ pc = "start" /\ err = "none" /\ cfg \in Factors /\ req = [none |-> TRUE]
        /\ thermoNew = FALSE /\ hydroNew = FALSE /\ phasesNew = FALSE

Fail(e) == pc' = "failed" /\ err' = e

Validate(outcome) ==
    /\ pc = "start"
    /\ IF outcome = "ok" THEN pc' = "validated" /\ phasesNew' = TRUE /\ UNCHANGED err
       ELSE Fail("WallGoPhaseValidationError") /\ UNCHANGED phasesNew          \* "same" / "order": nothing replaced
    /\ UNCHANGED <<cfg, req, thermoNew, hydroNew>>

\* new Thermodynamics object, then the template model's LTE speed
TemplateLTE(ok) ==
    /\ pc = "validated" /\ thermoNew' = TRUE
    /\ IF ok THEN pc' = "lteDone" /\ UNCHANGED err ELSE Fail("WallGoPhaseValidationError")
    /\ UNCHANGED <<cfg, req, hydroNew, phasesNew>>

Estimate(epsPositive, tpJ, tmJ, tpSlow) ==
    /\ pc = "lteDone"
    /\ IF ~epsPositive THEN Fail("WallGoError") /\ UNCHANGED req
       ELSE pc' = "estimated" /\ req' = Requests(tpJ, tmJ, tpSlow, cfg) /\ UNCHANGED err
    /\ UNCHANGED <<cfg, thermoNew, hydroNew, phasesNew>>

Step(from, to) == pc = from /\ pc' = to /\ UNCHANGED <<err, cfg, req, thermoNew, hydroNew, phasesNew>>
TraceHigh == Step("estimated", "tracedHigh")
TraceLow == Step("tracedHigh", "tracedLow")
SetExtrapolate == Step("tracedLow", "extrapolated")
InitHydro == pc = "extrapolated" /\ pc' = "hydro" /\ hydroNew' = TRUE /\ UNCHANGED <<err, cfg, req, thermoNew, phasesNew>>
Jouguet(ok) == /\ pc = "hydro"
               /\ IF ok THEN pc' = "ready" /\ UNCHANGED err ELSE Fail("WallGoError")
               /\ UNCHANGED <<cfg, req, thermoNew, hydroNew, phasesNew>>

TT == Temps \cup {None}
Next == \/ \E o \in {"ok", "same", "order"} : Validate(o)
        \/ \E b \in BOOLEAN : TemplateLTE(b)
        \/ \E e \in BOOLEAN, a, b, c \in TT : Estimate(e, a, b, c)
        \/ TraceHigh \/ TraceLow \/ SetExtrapolate \/ InitHydro
        \/ \E b \in BOOLEAN : Jouguet(b)
Spec == Init /\ [][Next]_vars

(****************************** properties *********************************)
TypeOK == pc \in Stages /\ err \in {"none", "WallGoPhaseValidationError", "WallGoError"}
\* hydrodynamics are built only from extrapolated, fully traced thermodynamics
HydroAfterThermo == hydroNew => (thermoNew /\ phasesNew /\ pc \in {"hydro", "ready", "failed"})
ErrIffFailed == (pc = "failed") <=> (err # "none")
\* a rejected phase input replaces nothing
RejectedInputHarmless == (pc = "failed" /\ ~phasesNew) => (~thermoNew /\ ~hydroNew)
\* with factors on the admissible side of 1 and a template T+ at 0.99 vJ that is not below Tn (or missing, so that the
\* fallback tmax Tn is used), the high-temperature phase is requested on a range that contains Tn; with a slow-wall
\* temperature not above the Jouguet T-, the low-temperature range is a non-empty interval
Requested == pc \in {"estimated", "tracedHigh", "tracedLow", "extrapolated", "hydro", "ready"}
AdmissibleCfg == cfg.thMin <= U /\ cfg.thMax >= U /\ cfg.hyMax >= U /\ cfg.hyMin <= U
HighRangeContainsTn == (Requested /\ AdmissibleCfg /\ (req.tpJ = None \/ req.tpJ >= U)) => (req.highMin <= U /\ U <= req.highMax)
LowRangeNonEmpty == (Requested /\ AdmissibleCfg /\ req.tpSlow # None /\ req.tmJ # None /\ req.tpSlow <= req.tmJ) => req.lowMin <= req.lowMax
\* NOT a property of the code (documented counterexample, SetupLate.cfg): a set-up that fails leaves the manager as it was.
\* A failure after validatePhaseInput (template LTE, epsilon, Jouguet) has already replaced phases / thermodynamics
\* (and, for the Jouguet check, hydrodynamics).
FailureLeavesNothing == (pc = "failed") => (~phasesNew /\ ~thermoNew /\ ~hydroNew)
=============================================================================
