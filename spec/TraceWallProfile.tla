---------------------------- MODULE TraceWallProfile ----------------------------
(* Trace validation for C04 (event "Profile") and C09 (event "Pressure").            *)
EXTENDS WallProfile, TraceLib
CONSTANT PROP
VARIABLE prevD       \* C09: digits reached on the previous (coarser) grid for the same shape

D30 == 8          \* digits: T30 - c1 relative to |c1| (the velocity is computed from T so that T30 = c1 holds exactly)
D33 == 3          \* digits: T33 - c2 relative to |c2|: T is solved to rtol = errTol/10 = 1e-4 and T33 ~ T^4
DFAR == 3         \* digits: end points vs the hydrodynamic matching values when far from the wall

TProfile ==
    /\ IsEvent("Profile") /\ PROP = "C04"
    /\ LET e == Ev
           n == Len(e.pts) IN
       /\ e.out = "ok"
       /\ n >= 3
       \* every point is one of the outcomes of the design model; the harness reports "offRoot" for a returned temperature at which
       \* the residual is neither small nor stationary (a root exists nearby and was missed) -- no action of WallProfile.tla produces it
       /\ \A k \in 1..n : e.pts[k].kind \in Outcomes
       /\ e.succ <=> (\A k \in 1..n : e.pts[k].kind # "none")               \* SuccIffNoGiveUp
       /\ e.succ =>
            /\ \A k \in 1..n :
                 /\ e.pts[k].d30 >= D30 /\ e.pts[k].d33 >= D33                \* both components reproduced
                 /\ e.pts[k].kind = "root" => e.pts[k].side = (IF e.deton THEN "below" ELSE "above")   \* BranchRight
            /\ e.farLow => e.dFarLow >= DFAR                                   \* tends to (T-, -v-) behind the wall
            /\ e.farHigh => e.dFarHigh >= DFAR                                 \* tends to (T+, -v+) in front
       /\ deton' = e.deton /\ i' = n + 1 /\ pcp' = "done" /\ succ' = e.succ
       /\ out' = [k \in 1..n |-> e.pts[k].kind] /\ side' = [k \in 1..n |-> IF e.pts[k].kind = "root" THEN e.pts[k].side ELSE "at"]
       /\ UNCHANGED prevD

\* C09: digits of (pressure - (V(low) - V(high))) / |Delta V|.  The identity holds to discretisation accuracy:
\* the bound follows the resolution  res10 = 10 * M / (2 R),  R = (extent of the two walls) / (narrowest width),
\* i.e. ten times the number of grid points across the narrowest wall (spectral convergence, measured); the
\* finite-difference field derivative of a potential with a large T^4 background saturates at 8-9 digits.
D09(res10) == IF res10 >= 120 THEN 8 ELSE IF res10 >= 100 THEN 7 ELSE IF res10 >= 80 THEN 4
              ELSE IF res10 >= 65 THEN 3 ELSE IF res10 >= 55 THEN 2 ELSE 1
Min2(a, b) == IF a < b THEN a ELSE b
TPressure ==
    /\ IsEvent("Pressure") /\ PROP = "C09"
    /\ Ev.out = "ok"
    /\ Ev.M >= 40
    /\ Ev.ratioOK /\ Ev.offsetOK                    \* shape inside the declared domain
    /\ Ev.dP >= D09(Ev.res10)
    /\ Ev.dP >= Min2(prevD, 8) - 1                   \* refining the grid does not lose accuracy (up to saturation)
    /\ Ev.dGrad >= 9                                \* field gradient = exact derivative of the profile
    /\ Ev.paramsKept                                \* the evaluation used the wall shape it was given
    \* the default step (multiplier 1) moves the wall to the action's minimum first: on a grid mapped to that wall the
    \* identity holds for the moved wall too, with the gradient of the MOVED profile (6 digits measured >= 8)
    /\ Ev.movedNear => Ev.dPmoved >= 6
    \* the same wall on a grid with unequal tails (inside 3x): the tails cost at most two digits of the resolution
    /\ Ev.dPtails >= Min2(Ev.dP, 8) - 2
    /\ prevD' = Ev.dP
    /\ UNCHANGED vars

TInit == TraceInitLib /\ prevD = 0 /\ deton = FALSE /\ i = 1 /\ out = <<>> /\ side = <<>> /\ succ = TRUE /\ pcp = "points"
TNext == TProfile \/ TPressure
TSpec == TInit /\ [][TNext]_<<vars, prevD, tid, l>>
=============================================================================
