SPECIFICATION TSpec
CONSTANTS
  NP = 1
  NS = 7
  NS2 = 5
  StrictErrors = TRUE
  MoveAxis = TRUE
  TargetSizes = {3, 5, 7}
  MAXF = 9
CONSTRAINT Progress
INVARIANT Atomic
INVARIANT ErrorKind
POSTCONDITION TraceAccepted
CHECK_DEADLOCK FALSE
