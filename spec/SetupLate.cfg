SPECIFICATION Spec
CONSTANTS
  Temps = {10000, 10400}
  Factors <- FactorMenu
INVARIANT FailureLeavesNothing
CHECK_DEADLOCK FALSE
