SPECIFICATION Spec
CONSTANTS
  K = 5
INVARIANT ClassifyOK
INVARIANT NoNeedlessFallback
INVARIANT SentinelsSound
INVARIANT WindowSound
CHECK_DEADLOCK FALSE
