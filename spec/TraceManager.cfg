SPECIFICATION TSpec
CONSTANTS
  Calls = {"info", "lte", "solve", "deton", "matching"}
  BadInputs = {"same", "order"}
  NR = 1
CONSTRAINT Progress
INVARIANT CallsAreCoherent
POSTCONDITION TraceAccepted
CHECK_DEADLOCK FALSE
