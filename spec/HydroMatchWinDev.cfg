SPECIFICATION Spec
CONSTANTS
  K = 5
INVARIANT ClassifyOK
INVARIANT NoNeedlessFallback
INVARIANT SentinelsSound
INVARIANT WindowSoundEverywhere
CHECK_DEADLOCK FALSE
