------------------------------ MODULE InterpFn ------------------------------
(***************************************************************************)
(* C18.  State machine of WallGo.InterpolatableFunction.                    *)
(*                                                                          *)
(* Abscissae live on the lattice 0..L (the harness maps k to x0 + k*delta). *)
(* The abstract state s is what the evaluation contract depends on:         *)
(*   has        a table exists                                              *)
(*   lo, hi     its range (lattice positions)                               *)
(*   mLo, mHi   out-of-range modes  ERROR / NONE / CONSTANT / FUNCTION      *)
(*   ad         adaptive interpolation enabled                              *)
(*   pend       number of direct evaluations scheduled since the last       *)
(*              update,  pLo/pHi their min/max                              *)
(* One action per public call.  The outcome of evaluate()/derivative() is   *)
(* the RULE MATRIX below: per element exactly one of                        *)
(*   spline / direct / boundary / extrap     (dspline/ddirect/dzero/dextrap)*)
(* or a ValueError for the whole call, in the code's dispatch order (both   *)
(* ERROR raises first; no table or both NONE evaluates directly; otherwise  *)
(* the lower side is handled -- including its scheduling side effect --     *)
(* before the upper side).  Direct evaluations feed the adaptive counter;   *)
(* reaching THR triggers an adaptive update (extension of the table to the  *)
(* span of the scheduled points) inside the very call that crossed it.      *)
(*                                                                          *)
(* Deliberately outside the model (guards in the actions, stated in         *)
(* DESIGN.md): a degenerate adaptive update without table whose scheduled   *)
(* points all coincide; direct finite-difference derivatives while adaptive *)
(* interpolation is on (their stencil points are off-lattice); table ends   *)
(* placed on lattice points where the function is non-finite.               *)
(***************************************************************************)
EXTENDS Integers, Sequences, FiniteSets, TLC

CONSTANTS L,        \* lattice 0..L
          THR,      \* adaptive threshold (set to this value on the real object)
          K0,       \* initialInterpolationPointCount of the real object
          Bad,      \* lattice points where the underlying function is non-finite
          MAXLEN    \* longest input array generated

Modes == {"ERROR", "NONE", "CONSTANT", "FUNCTION"}
Pos == 0..L
Range(f) == {f[i] : i \in DOMAIN f}
Min(S) == CHOOSE a \in S : \A b \in S : a <= b
Max(S) == CHOOSE a \in S : \A b \in S : a >= b
Sel(xs, I) == SelectSeq(xs, LAMBDA p : p \in I)   \* subsequence with values in I

VARIABLE s
vars == <<s>>

Init == s = [has |-> FALSE, lo |-> 0, hi |-> 0, mLo |-> "NONE", mHi |-> "NONE",
             ad |-> FALSE, pend |-> 0, pLo |-> 0, pHi |-> 0, deg |-> FALSE]

TypeOK == /\ s.has \in BOOLEAN /\ s.lo \in Pos /\ s.hi \in Pos
          /\ s.mLo \in Modes /\ s.mHi \in Modes /\ s.ad \in BOOLEAN
          /\ s.pend \in 0..(THR - 1) /\ s.pLo \in Pos /\ s.pHi \in Pos

(**************************** table operations *****************************)
NewS(t, a, b) == [t EXCEPT !.has = TRUE, !.lo = a, !.hi = b]

\* extendInterpolationTable(a, b, kl, kh) on state t
ExtendS(t, a, b, kl, kh) ==
    IF ~t.has
    THEN IF a < b /\ kl + kh >= 2 THEN NewS(t, a, b) ELSE [t EXCEPT !.deg = TRUE]
    ELSE [t EXCEPT !.lo = IF a < t.lo /\ kl > 0 THEN a ELSE t.lo,
                   !.hi = IF b > t.hi /\ kh > 0 THEN b ELSE t.hi,
                   !.pend = IF t.ad THEN 0 ELSE t.pend]     \* "hacky reset"

AppendCount(t) == IF t.has THEN K0 \div 5 ELSE K0 \div 2

\* scheduleForInterpolation for the directly evaluated points pts (a sequence)
Sched(t, pts) ==
    IF ~t.ad \/ t.deg THEN t ELSE
    LET valid == Range(pts) \ Bad IN
    IF valid = {} THEN t ELSE
    LET cnt == t.pend + Cardinality(valid)
        nlo == IF t.pend = 0 THEN Min(valid) ELSE Min(valid \cup {t.pLo})
        nhi == IF t.pend = 0 THEN Max(valid) ELSE Max(valid \cup {t.pHi})
    IN IF cnt >= THR
       THEN LET c == AppendCount(t) IN
            ExtendS([t EXCEPT !.pend = 0, !.pLo = 0, !.pHi = 0], nlo, nhi, c, c)
       ELSE [t EXCEPT !.pend = cnt, !.pLo = nlo, !.pHi = nhi]

(****************************** rule matrix ********************************)
Below(t, x) == t.has /\ x < t.lo
Above(t, x) == t.has /\ x > t.hi
InRange(t, x) == t.has /\ t.lo <= x /\ x <= t.hi

SideRule(m) == CASE m = "NONE" -> "direct" [] m = "CONSTANT" -> "boundary"
                 [] m = "FUNCTION" -> "extrap" [] OTHER -> "raise"

\* outcome of evaluate(xs, bUseInterpolatedValues = ui) in state t:
\*   [out, rules, st]  st = state afterwards
EvalOutcome(t, xs, ui) ==
    LET n == Len(xs)
        bel == {p \in Range(xs) : Below(t, p)}
        abv == {p \in Range(xs) : Above(t, p)}
        bothErr == t.mLo = "ERROR" /\ t.mHi = "ERROR"
        bothNone == t.mLo = "NONE" /\ t.mHi = "NONE"
        raise(st) == [out |-> "ValueError", rules |-> <<>>, st |-> st]
    IN
    IF ~ui \/ ~t.has
    THEN [out |-> "ok", rules |-> [i \in 1..n |-> "direct"], st |-> Sched(t, xs)]
    ELSE IF bel \cup abv = {}
    THEN [out |-> "ok", rules |-> [i \in 1..n |-> "spline"], st |-> t]
    ELSE IF bothErr THEN raise(t)
    ELSE IF bothNone
    THEN [out |-> "ok",
          rules |-> [i \in 1..n |-> IF InRange(t, xs[i]) THEN "spline" ELSE "direct"],
          st |-> Sched(t, Sel(xs, bel \cup abv))]
    ELSE IF bel # {} /\ t.mLo = "ERROR" THEN raise(t)
    ELSE LET t1 == IF bel # {} /\ t.mLo = "NONE" THEN Sched(t, Sel(xs, bel)) ELSE t IN
         IF abv # {} /\ t.mHi = "ERROR" THEN raise(t1)
         ELSE LET t2 == IF abv # {} /\ t.mHi = "NONE" THEN Sched(t1, Sel(xs, abv)) ELSE t1 IN
              [out |-> "ok",
               rules |-> [i \in 1..n |-> IF InRange(t, xs[i]) THEN "spline"
                                         ELSE IF Below(t, xs[i]) THEN SideRule(t.mLo)
                                         ELSE SideRule(t.mHi)],
               st |-> t2]

DSideRule(m) == CASE m = "NONE" -> "ddirect" [] m = "CONSTANT" -> "dzero"
                  [] m = "FUNCTION" -> "dextrap" [] OTHER -> "raise"

\* outcome of derivative(xs, order, bUseInterpolation = ui); never changes the state
\* inside the modelled domain (direct differences only while adaptive is off)
DerivOutcome(t, xs, order, ui) ==
    LET n == Len(xs)
        bel == {p \in Range(xs) : Below(t, p)}
        abv == {p \in Range(xs) : Above(t, p)}
        bothErr == t.mLo = "ERROR" /\ t.mHi = "ERROR"
        bothNone == t.mLo = "NONE" /\ t.mHi = "NONE"
        raise == [out |-> "ValueError", rules |-> <<>>, direct |-> FALSE]
    IN
    IF ~ui \/ ~t.has \/ order > 2
    THEN [out |-> "ok", rules |-> [i \in 1..n |-> "ddirect"], direct |-> TRUE]
    ELSE IF bel \cup abv = {}
    THEN [out |-> "ok", rules |-> [i \in 1..n |-> "dspline"], direct |-> FALSE]
    ELSE IF bothErr THEN raise
    ELSE IF bothNone
    THEN [out |-> "ok",
          rules |-> [i \in 1..n |-> IF InRange(t, xs[i]) THEN "dspline" ELSE "ddirect"],
          direct |-> TRUE]
    ELSE IF bel # {} /\ t.mLo = "ERROR" THEN raise
    ELSE IF abv # {} /\ t.mHi = "ERROR"
    THEN \* the lower side is differentiated (directly, for NONE) before the upper side raises
         [raise EXCEPT !.direct = (bel # {} /\ t.mLo = "NONE")]
    ELSE [out |-> "ok",
          rules |-> [i \in 1..n |-> IF InRange(t, xs[i]) THEN "dspline"
                                    ELSE IF Below(t, xs[i]) THEN DSideRule(t.mLo)
                                    ELSE DSideRule(t.mHi)],
          direct |-> (bel # {} /\ t.mLo = "NONE") \/ (abv # {} /\ t.mHi = "NONE")]

(******************************** actions **********************************)
NewTable(a, b) ==
    /\ a < b /\ a \notin Bad /\ b \notin Bad
    /\ s' = NewS(s, a, b)

Eval(xs, ui) ==
    LET o == EvalOutcome(s, xs, ui) IN
    /\ ~o.st.deg                         \* degenerate adaptive update: outside the model
    /\ s' = o.st

Deriv(xs, order, ui) ==
    LET o == DerivOutcome(s, xs, order, ui) IN
    /\ o.direct => ~s.ad                 \* off-lattice stencil points: outside the model
    /\ UNCHANGED s

Extend(a, b, kl, kh) ==
    /\ a \notin Bad /\ b \notin Bad /\ kl + kh > 0
    /\ LET t == ExtendS(s, a, b, kl, kh) IN ~t.deg /\ s' = t

SetModes(l, u) == s' = [s EXCEPT !.mLo = l, !.mHi = u]
EnableAdaptive == s' = [s EXCEPT !.ad = TRUE, !.pend = 0, !.pLo = 0, !.pHi = 0]
DisableAdaptive == s' = [s EXCEPT !.ad = FALSE]
WriteRead == s.has /\ UNCHANGED s        \* round trip through a file into a fresh object

XS == UNION {[1..m -> Pos] : m \in 1..MAXLEN}

Next == \/ \E a, b \in Pos : NewTable(a, b)
        \/ \E xs \in XS, ui \in BOOLEAN : Eval(xs, ui)
        \/ \E xs \in XS, o \in 1..2, ui \in BOOLEAN : Deriv(xs, o, ui)
        \/ \E a, b \in Pos, kl, kh \in {0, 2} : Extend(a, b, kl, kh)
        \/ \E l, u \in Modes : SetModes(l, u)
        \/ EnableAdaptive \/ DisableAdaptive \/ WriteRead

Spec == Init /\ [][Next]_vars

(****************************** invariants *********************************)
RangeOK == s.has => s.lo < s.hi
PendOK == s.pend < THR /\ (s.pend > 0 => s.pLo <= s.pHi /\ s.pLo \notin Bad /\ s.pHi \notin Bad)

ValueRules == {"spline", "direct", "boundary", "extrap"}
DerivRules == {"dspline", "ddirect", "dzero", "dextrap"}

(* the evaluation contract, stated independently of the dispatch code above,
   for every input the generator can produce, in every reachable state *)
Contract ==
    \A xs \in XS, ui \in BOOLEAN :
      LET o == EvalOutcome(s, xs, ui) IN
      /\ o.out \in {"ok", "ValueError"}
      /\ o.out = "ok" =>
           /\ Len(o.rules) = Len(xs)                                   \* RuleTotal
           /\ \A i \in 1..Len(xs) :
                /\ o.rules[i] \in ValueRules
                /\ (ui /\ InRange(s, xs[i])) => o.rules[i] = "spline"
                /\ (ui /\ Below(s, xs[i])) => o.rules[i] = SideRule(s.mLo)
                /\ (ui /\ Above(s, xs[i])) => o.rules[i] = SideRule(s.mHi)
                /\ (~ui \/ ~s.has) => o.rules[i] = "direct"
      /\ o.out = "ValueError" <=>
           /\ ui /\ s.has
           /\ \/ \E i \in 1..Len(xs) : Below(s, xs[i]) /\ s.mLo = "ERROR"
              \/ \E i \in 1..Len(xs) : Above(s, xs[i]) /\ s.mHi = "ERROR"
      \* the table never shrinks and an update is only triggered by crossing THR
      /\ o.st.has => (s.has => o.st.lo <= s.lo /\ o.st.hi >= s.hi)
      /\ (o.st.lo # s.lo \/ o.st.hi # s.hi \/ o.st.has # s.has) => s.ad

DContract ==
    \A xs \in XS, order \in 1..2, ui \in BOOLEAN :
      LET o == DerivOutcome(s, xs, order, ui) IN
      /\ o.out = "ok" =>
           /\ Len(o.rules) = Len(xs)
           /\ \A i \in 1..Len(xs) :
                /\ o.rules[i] \in DerivRules
                /\ (ui /\ InRange(s, xs[i])) => o.rules[i] = "dspline"
                /\ (ui /\ Below(s, xs[i])) => o.rules[i] = DSideRule(s.mLo)
                /\ (ui /\ Above(s, xs[i])) => o.rules[i] = DSideRule(s.mHi)
      /\ o.out = "ValueError" <=>
           /\ ui /\ s.has
           /\ \/ \E i \in 1..Len(xs) : Below(s, xs[i]) /\ s.mLo = "ERROR"
              \/ \E i \in 1..Len(xs) : Above(s, xs[i]) /\ s.mHi = "ERROR"

(* the table only grows or is replaced by NewTable; modes change only by SetModes *)
Monotone == [][ (s.has /\ s'.has /\ (s'.lo > s.lo \/ s'.hi < s.hi)) =>
                  \E a, b \in Pos : NewTable(a, b) ]_vars
=============================================================================
