SPECIFICATION Spec
CONSTANTS
  Keys <- DesignKeys
  Settings <- DesignSettings
  TickMenus <- DesignTicks
INVARIANT EvenNNeverStored
CONSTRAINT Bounded
CHECK_DEADLOCK FALSE
