SPECIFICATION Spec
CONSTANTS
  K = 5
INVARIANT ClassifyOK
INVARIANT NoNeedlessFallback
INVARIANT SentinelsSoundEverywhere
INVARIANT WindowSound
CHECK_DEADLOCK FALSE
