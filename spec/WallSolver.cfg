SPECIFICATION Spec
CONSTANTS
  K = 6
  XTOL = 1
  VMIN = 1
  VMAX = 6
INVARIANT Bracketed
INVARIANT InWindow
INVARIANT RunawaySound
INVARIANT ErrorLabel
INVARIANT FromConverged
INVARIANT AtolBeforeSearch
CHECK_DEADLOCK FALSE
