SPECIFICATION TSpec
CONSTRAINT Progress
INVARIANT OrderOK
POSTCONDITION TraceAccepted
CHECK_DEADLOCK FALSE
