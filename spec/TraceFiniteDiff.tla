------------------------- MODULE TraceFiniteDiff -------------------------
(* Trace validation for C19: every recorded call of WallGo.helpers.derivative /  *)
(* gradient / hessian must be the call the design model FiniteDiff prescribes:   *)
(* same stencil per element (so same offset logic and same table row), no        *)
(* evaluation outside the bounds, exact result (digit class) and right shape.    *)
EXTENDS FiniteDiff, TraceLib

DMIN == 11       \* digits of |result - exact| relative to sum |c_j f_j| / dx^n

ElemOK(acc, n, lo, hi, el) ==
    /\ el.grid                                   \* evaluation points sit on the lattice
    /\ el.offs = StencilPos(n, acc, Offset(acc, el.x, lo, hi))

TDeriv ==
    /\ IsEvent("Deriv")
    /\ LET e == Ev IN
       /\ e.acc \in {2, 4} /\ e.n \in {1, 2}
       /\ Differentiate(e.acc, e.n, e.els[1].x, e.lo, e.hi)
       /\ \A i \in 1..Len(e.els) : ElemOK(e.acc, e.n, e.lo, e.hi, e.els[i])
       /\ e.samecalls                            \* all calls of f used the same points
       /\ InDomain(e.lo, e.hi) => e.oob = 0      \* never outside the bounds
       /\ e.deg <= Len(StencilPos(e.n, e.acc, 0)) - 1 => e.d >= DMIN
       /\ e.shapeOut = DerivShape(e.shapeX, e.extra)

VecSet(nv, axes, ps) ==
    { [k \in 1..nv |-> IF k = NormAxis(a, nv) + 1 THEN p ELSE 0] :
        a \in {axes[i] : i \in 1..Len(axes)}, p \in ps }

TGrad ==
    /\ IsEvent("Grad")
    /\ UNCHANGED <<call, tab>>
    /\ LET e == Ev
           row == Tab(1, e.acc).pos[1]
       IN
       /\ \A i \in 1..Len(e.axes) : AxisOK(e.axes[i], e.nv)
       /\ {e.pts[i] : i \in 1..Len(e.pts)} = VecSet(e.nv, e.axes, PosSet(row))
       /\ e.grid
       /\ e.deg <= Len(row) - 1 => e.d >= DMIN
       /\ e.shapeOut = GradShape(e.shapeX, e.axes)

HessSet(nv, xa, ya, h) ==
    { [k \in 1..nv |-> (IF k = NormAxis(a, nv) + 1 THEN h.px[j] ELSE 0)
                      + (IF k = NormAxis(b, nv) + 1 THEN h.py[j] ELSE 0)] :
        a \in {xa[i] : i \in 1..Len(xa)}, b \in {ya[i] : i \in 1..Len(ya)},
        j \in 1..Len(h.num) }

THess ==
    /\ IsEvent("Hess")
    /\ UNCHANGED <<call, tab>>
    /\ LET e == Ev
           h == HTab(e.acc)
       IN
       /\ \A i \in 1..Len(e.xa) : AxisOK(e.xa[i], e.nv)
       /\ \A i \in 1..Len(e.ya) : AxisOK(e.ya[i], e.nv)
       /\ {e.pts[i] : i \in 1..Len(e.pts)} = HessSet(e.nv, e.xa, e.ya, h)
       /\ e.grid
       /\ e.deg <= HessExactDeg(e.acc) => e.d >= DMIN
       /\ e.shapeOut = HessShape(e.shapeX, e.xa, e.ya)

(* a rejected argument (x outside the bounds) must raise and evaluate nothing *)
TReject ==
    /\ IsEvent("Reject")
    /\ UNCHANGED <<call, tab>>
    /\ Ev.raised /\ Ev.nevals = 0
    /\ (Ev.lo # NONE /\ Ev.x < Ev.lo) \/ (Ev.hi # NONE /\ Ev.x > Ev.hi)

(* non-dyadic steps, positions exactly k steps from a bound: no evaluation outside the bounds (not by an ulp),      *)
(* finite result, still the derivative of the cubic (digits relative to the conditioning of the stencil)          *)
TScan ==
    /\ IsEvent("Scan")
    /\ Ev.acc \in {2, 4} /\ Ev.n \in {1, 2} /\ Ev.cases >= 100
    /\ Ev.oob = 0 /\ Ev.nonfinite = 0 /\ Ev.d >= 7
    /\ UNCHANGED vars

(* EffectivePotential.derivT: bounded below by T = 0 -- never evaluates the potential at a negative temperature,  *)
(* and is exact on cubics in T also within two steps of T = 0                                                   *)
TDerivT ==
    /\ IsEvent("DerivT")
    /\ ~Ev.negT /\ Ev.d >= 9 /\ Ev.n >= 1
    /\ UNCHANGED vars

TInit == TraceInitLib /\ Init
TNext == TDeriv \/ TGrad \/ THess \/ TReject \/ TScan \/ TDerivT
TSpec == TInit /\ [][TNext]_<<vars, tid, l>>
=============================================================================
