---------------------------- MODULE PressureIter ----------------------------
(***************************************************************************)
(* The iteration inside EOM.wallPressure (equationOfMotion.py): repeated    *)
(* pressure updates until two consecutive pressures agree, with a damping   *)
(* multiplier 2^-k, a switch to the "improved" (cautious) update, an        *)
(* oscillation detector, and an iteration cap that returns the mean of the  *)
(* last four pressures and clears successWallPressure.                      *)
(*                                                                          *)
(* One action per pass through the loop body.  The floating-point           *)
(* comparisons the code makes are inputs of the action (chosen by the       *)
(* environment in the design model, recomputed from the recorded pressures  *)
(* when a real run is validated):                                           *)
(*   cErr  error < errTol           sLt  errorSolver < errTol               *)
(*   sGt   errorSolver > errTol     osc  the two-cycle test on the last 4   *)
(*   slow  error > previous error / 1.5                                     *)
(* with error = |p_n - p_(n-1)|, errTol = max(rtol |p_n|, atol) * 2^-k, and *)
(* errorSolver = 0 on a plain update.                                       *)
(***************************************************************************)
EXTENDS Integers, TLC

CONSTANTS MaxIt            \* configEOM.maxIterations in the design model
VARIABLES maxIt,           \* configEOM.maxIterations of this run
          i,               \* passes completed
          n,               \* pressures recorded so far (the one before the loop included)
          k,               \* multiplier = 2^-k
          improve,         \* the improved update is in use
          pc,              \* "loop" | "done"
          succ,            \* successWallPressure
          exit,            \* "none" | "converged" | "cap"
          mean             \* the returned pressure is the mean of the last four, not the last one
vars == <<maxIt, i, n, k, improve, pc, succ, exit, mean>>

Max(a, b) == IF a > b THEN a ELSE b

Init == /\ maxIt = MaxIt /\ i = 0 /\ n = 1 /\ k = 0 /\ improve \in BOOLEAN      \* improved from the start for detonations / when forced
        /\ pc = "loop" /\ succ = TRUE /\ exit = "none" /\ mean = FALSE

\* consistency of the comparisons: a plain update has errorSolver = 0
Consistent(cErr, sLt, sGt) == ~(sLt /\ sGt) /\ (~improve => ~sGt)

Pass(cErr, sLt, sGt, osc, slow) ==
    /\ pc = "loop" /\ Consistent(cErr, sLt, sGt)
    /\ i' = i + 1 /\ n' = n + 1 /\ UNCHANGED maxIt
    /\ LET conv == cErr \/ (sLt /\ improve)
           stop == conv /\ ~sGt
           cap == ~conv /\ i + 1 >= maxIt - 1
           slowNow == n + 1 > 2 /\ slow
       IN
       IF stop THEN /\ pc' = "done" /\ exit' = "converged" /\ UNCHANGED <<k, improve, succ, mean>>
       ELSE IF cap THEN /\ pc' = "done" /\ exit' = "cap" /\ succ' = FALSE /\ mean' = TRUE /\ UNCHANGED <<k, improve>>
       ELSE /\ UNCHANGED <<pc, exit, succ, mean>>
            /\ k' = IF conv THEN k + 1                                   \* converged outside, not inside: damp more
                    ELSE IF n + 1 >= 4 /\ osc THEN k + 1                 \* two-cycle: damp more
                    ELSE IF n + 1 >= 4 /\ (i + 1) % 10 = 0 THEN Max(k, (i + 1) \div 10)
                    ELSE k
            /\ improve' = (improve \/ slowNow)

Next == \E cErr, sLt, sGt, osc, slow \in BOOLEAN : Pass(cErr, sLt, sGt, osc, slow)
Spec == Init /\ [][Next]_vars

(****************************** properties *********************************)
SuccIffConverged == pc = "done" => (succ <=> exit = "converged")
MeanIffCap == pc = "done" => (mean <=> exit = "cap")
DampingMonotone == [][k' >= k]_vars
ImproveSticky == [][improve => improve']_vars
\* The cap on the number of passes.  NOT an invariant of the code: the branch "converged outside but not inside" halves the
\* multiplier and continues WITHOUT looking at the cap, so a run in which that keeps happening outlives maxIterations
\* (documented counterexample, PressureIterCap.cfg).  It holds when that branch is not taken at the cap (CapAssumed).
CapRespected == i <= maxIt - 1
CapConstraint == i <= maxIt + 2
=============================================================================
