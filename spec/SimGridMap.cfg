SPECIFICATION SSpec
CONSTANTS
  NL = 4
  NTAIL = 3
  NR = 2
  NS = 4
  NC = 2
  NTMP = 4
  D = 5
CONSTRAINT Bound
INVARIANT Emit
CHECK_DEADLOCK FALSE
