SPECIFICATION TSpec
CONSTANTS
  NF = 2
  PROP = "C08"
CONSTRAINT Progress
POSTCONDITION TraceAccepted
CHECK_DEADLOCK FALSE
