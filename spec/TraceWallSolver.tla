---------------------------- MODULE TraceWallSolver ----------------------------
(* Trace validation for C01.  One trace = one WallGoManager.solveWall on a real model:       *)
(*   Setup      window [vMin, min(vJ, fastestDeflag)], vJ, errTol (ticks of 1e-7)            *)
(*   Eval*      every wallPressure call made by solveWall, in order: velocity, sign of the   *)
(*              pressure, the two success flags it left behind, the absolute tolerance stage *)
(*   Result     what solveWall returned, and whether its fields are those of the last Eval   *)
(*   Audit*     independent pressure evaluations at v -/+ k errTol made by the harness       *)
(*   Fresh      a fresh hydrodynamic matching at the reported velocity vs the returned T+, T- *)
(*   Repeat*    the same call repeated / interleaved with other solver calls on the manager  *)
(* The Eval events must be a behaviour of WallSolver (P grows with each observed sign); all  *)
(* invariants of the design model are checked on it.                                         *)
EXTENDS WallSolver, TraceLib

VARIABLES phase, audit
tv == <<phase, audit>>

Stage(e) == IF atolSet THEN "set" ELSE "ini"

TSetup ==
    /\ IsEvent("Setup") /\ phase = "setup"
    /\ Ev.out = "ok"
    /\ 0 < Ev.vMin /\ Ev.vMin < Ev.vMax /\ Ev.vMax <= Ev.vJ
    /\ wlo' = Ev.vMin /\ whi' = Ev.vMax /\ xtol' = Ev.errTol + 2 /\ lo' = Ev.vMin /\ hi' = Ev.vMax
    /\ phase' = "solve"
    /\ UNCHANGED <<P, pc, slo, shi, succP, succT, lastV, atolSet, res, audit>>

\* the next Eval event is whichever solver action is enabled; silent steps are composed in
TEval ==
    /\ IsEvent("Eval") /\ phase = "solve"
    /\ LET e == Ev IN
       /\ e.atol = (IF pc \in {"max", "min", "double"} THEN "ini" ELSE "set")   \* 1e-8 until the bracket is known
       /\ \/ (pc = "max" /\ e.v = hi /\ EvalMax(e.s, e.conv, e.tprof))
          \/ (pc = "min" /\ e.v = lo /\ EvalMin(e.s, e.conv, e.tprof))
          \/ (pc = "double" /\ e.v = 2 * lo /\ DoubleMin(e.s, e.conv, e.tprof))
          \/ (pc = "search" /\ Probe(e.v, e.s, e.conv, e.tprof))
          \/ (pc = "final" /\ FinalEval(e.v, e.s, e.conv, e.tprof))
    /\ UNCHANGED tv

\* steps of the solver that make no evaluation
TSilent ==
    /\ phase = "solve"
    /\ SetAtol \/ Terminate \/ (\E cl \in BOOLEAN : Classify(cl)) \/ Runaway \/ GiveUp
    /\ UNCHANGED <<tid, l, tv>>

Abs(x) == IF x < 0 THEN -x ELSE x

TResult ==
    /\ IsEvent("Result") /\ phase = "solve" /\ pc = "done"
    /\ LET e == Ev IN
       /\ e.kind = res.kind /\ e.succ = res.succ
       /\ res.kind = "VELOCITY" =>
            /\ e.v = res.v
            /\ e.fromLast                         \* T+, T-, vJ, widths, offsets, profiles are those of the last evaluation
            /\ e.typeOK                           \* DEFLAGRATION below vJ, DETONATION above
       /\ res.kind # "VELOCITY" => e.v = -1       \* no velocity reported
       /\ e.kind = "ERROR" <=> ~e.succ
       \* a wall parameter on one of its bounds, or a temperature outside the tabulated ranges, is never reported as a velocity
       /\ (e.pinned \/ ~e.inRange) => e.kind # "VELOCITY"
    /\ phase' = "post"
    /\ UNCHANGED <<vars, audit>>

\* Independent evaluations at v -/+ k errTol (k = 1, 2, 4) with fresh wall parameters.  An evaluation that did
\* not converge or whose wall width ran into its bounds is inconclusive.  Demanded: at two tolerances and
\* beyond, a conclusive evaluation below is not positive and a conclusive one above is not negative.
TAudit ==
    /\ IsEvent("Audit") /\ phase = "post" /\ res.kind = "VELOCITY"
    /\ (Ev.k >= 2 /\ Ev.okBelow) => Ev.sBelow <= 0
    /\ (Ev.k >= 2 /\ Ev.okAbove) => Ev.sAbove >= 0
    /\ audit' = audit + (IF Ev.okBelow THEN 1 ELSE 0) + (IF Ev.okAbove THEN 1 ELSE 0)
    /\ UNCHANGED <<vars, phase>>

TFresh ==
    /\ IsEvent("Fresh") /\ phase = "post" /\ res.kind = "VELOCITY"
    /\ Abs(Ev.dTp) <= 30 /\ Abs(Ev.dTm) <= 30 /\ Abs(Ev.dvJ) <= 30      \* ticks of 1e-6 Tn / 1e-7
    /\ UNCHANGED <<vars, tv>>

TRepeat ==
    /\ IsEvent("Repeat") /\ phase = "post"
    /\ Ev.same                                    \* identical result (hash of every returned field)
    /\ UNCHANGED <<vars, tv>>

TEnd == /\ IsEvent("End") /\ phase = "post"
        /\ res.kind = "VELOCITY" => audit >= 1    \* the bracket was audited
        /\ UNCHANGED <<vars, tv>>

TInit == /\ TraceInitLib
         /\ P = [x \in {} |-> 0] /\ wlo = 0 /\ whi = 0 /\ xtol = 0
         /\ pc = "max" /\ lo = 0 /\ hi = 0 /\ slo = 0 /\ shi = 0
         /\ succP = TRUE /\ succT = TRUE /\ lastV = -1 /\ atolSet = FALSE /\ res = NoRes
         /\ phase = "setup" /\ audit = 0
TNext == TSetup \/ TEval \/ TSilent \/ TResult \/ TAudit \/ TFresh \/ TRepeat \/ TEnd
TSpec == TInit /\ [][TNext]_<<vars, tv, tid, l>>
=============================================================================
