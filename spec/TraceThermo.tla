------------------------------ MODULE TraceThermo ------------------------------
(* Trace validation for C10: one trace per (model, nucleation temperature, units)   *)
(* scenario on a real Thermodynamics object.  Events: SetExtrapolate, Obs (one cell  *)
(* of the obligation matrix with its measured digit class and the region the harness *)
(* sampled, cross-checked against the tick temperatures), End (accepted only when    *)
(* every cell has been discharged).                                                  *)
EXTENDS Thermo, TraceLib

CellOf(e) ==
    IF e.kind = "identity" THEN [phase |-> e.phase, region |-> e.region, what |-> e.what]
    ELSE IF e.kind = "continuity" THEN [phase |-> e.phase, end |-> e.end, what |-> e.what]
    ELSE [phase |-> e.phase, inside |-> "pIsMinusV"]

TSet == IsEvent("SetExtrapolate") /\ SetExtrapolate

TObs ==
    /\ IsEvent("Obs")
    /\ Discharge(CellOf(Ev), Ev.d)
    \* the samples really lie in the claimed region (ticks of T / Tn)
    /\ Ev.kind = "identity" =>
         /\ Ev.nSamples >= 5
         /\ Region(Ev.tLo, Ev.tmin, Ev.tmax) = Ev.region
         /\ Region(Ev.tHi, Ev.tmin, Ev.tmax) = Ev.region

TRetrace == IsEvent("Retrace") /\ Retrace

TEnd == IsEvent("End") /\ Complete /\ UNCHANGED vars

TInit == TraceInitLib /\ Init
TNext == TSet \/ TRetrace \/ TObs \/ TEnd
TSpec == TInit /\ [][TNext]_<<vars, tid, l>>
=============================================================================
