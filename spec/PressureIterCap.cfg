SPECIFICATION Spec
CONSTANTS
  MaxIt = 6
INVARIANT CapRespected
CONSTRAINT CapConstraint
CHECK_DEADLOCK FALSE
