--------------------------- MODULE TraceSolverBuild ---------------------------
(* Validates recorded histories of one real WallGoManager -- configuration changes (by attribute or by loading a file),    *)
(* collision directory changes, setupWallSolver / solveWall / solveWallDetonation calls -- against SolverBuild.tla.          *)
(* Every attribute of the built grid / Boltzmann solver / EOM is reported as the set of (key, value tag) pairs of the       *)
(* configuration menus whose concrete value it equals; the specification says which key at which current value it must be. *)
EXTENDS SolverBuild, TraceLib

Has(m, k, t) == \E q \in 1..Len(m) : m[q][1] = k /\ m[q][2] = t
Near(x, y) == x - y \in -2..2
SOf(e) == [incl |-> e.incl, mfp |-> e.mfp, L |-> e.L]
OutOK(o) == CASE last'.out = "TooEarly" -> o \in {"AssertionError", "AttributeError"}      \* named deviation TooEarlyKind
              [] OTHER -> o = last'.out

\* the objects a successful build handed out, against the model's record of it
SinksOK(e, s) ==
    /\ \A x \in DOMAIN Wire : Has(e.sinks[x], Wire[x], cfg[Wire[x]])
    /\ Near(e.tailIn, TailLen(s)) /\ Near(e.tailOut, TailLen(s))
    /\ Near(e.gridL, s.L) /\ Near(e.eomMfp, s.mfp) /\ Near(e.initL, s.L) /\ e.momT = 1000
    /\ e.shared /\ e.thermoSame /\ e.hydroSame /\ e.fresh /\ e.nFieldsOK /\ e.partsOK
    /\ e.inclFlag = s.incl /\ e.collLoaded = s.incl
    /\ e.basisM = "Cardinal" /\ e.basisN = "Chebyshev"                                    \* named deviation BasisKeysIgnored

TBegin == /\ IsEvent("Begin")
          /\ DOMAIN Ev.cfg = Keys /\ \A k \in Keys : Ev.cfg[k] \in Tags
          /\ cfg' = Ev.cfg /\ dir' = Ev.dir /\ ready' = Ev.ready /\ tk' = Ev.tk /\ pt' = [vJ |-> Ev.vJ, slow |-> Ev.slow]
          /\ serial' = 0 /\ last' = NoCall
TSet == /\ IsEvent("Set") /\ Ev.k \in Keys /\ Ev.v \in Tags /\ Ev.out = "ok" /\ Ev.v = Ev.asked /\ SetKey(Ev.k, Ev.v)
TDir == /\ IsEvent("Dir") /\ SetDir(Ev.d)
TBuild == /\ IsEvent("Build") /\ Build(SOf(Ev)) /\ OutOK(Ev.out)
          /\ (last'.out = "ok" => SinksOK(Ev, SOf(Ev)))
TSolve == /\ IsEvent("Solve") /\ Solve(SOf(Ev)) /\ OutOK(Ev.out)
          /\ Ev.called = (last'.out = "ok")
          /\ (last'.out = "ok" => SinksOK(Ev, SOf(Ev)) /\ Near(Ev.argL, Ev.L) /\ Ev.returned)
TDeton == /\ IsEvent("Deton") /\ Deton(SOf(Ev), Ev.only) /\ OutOK(Ev.out)
          /\ Ev.called = (last'.out = "ok")
          /\ (last'.out = "ok" =>
                /\ SinksOK(Ev, SOf(Ev)) /\ Near(Ev.argL, Ev.L) /\ Ev.returned
                /\ Ev.vminArg - VMin \in -1..1 /\ Ev.onlyArg = Ev.only
                /\ \A x \in DOMAIN DetonWire : Has(Ev.args[x], DetonWire[x], cfg[DetonWire[x]]))
TInit == TraceInitLib /\ cfg = [k \in Keys |-> "d"] /\ dir = "good" /\ ready = FALSE /\ serial = 0 /\ last = NoCall
         /\ tk = [none |-> 0] /\ pt = [vJ |-> 0, slow |-> 0]
TNext == TBegin \/ TSet \/ TDir \/ TBuild \/ TSolve \/ TDeton
TSpec == TInit /\ [][TNext]_<<vars, tid, l>>

AllKeys == {Wire[x] : x \in DOMAIN Wire} \cup {DetonWire[x] : x \in DOMAIN DetonWire}
NoSettings == {}
NoTicks == {}
\* the design invariants, on every state of every recorded history
TFailureGivesNothing == l > 1 => FailureGivesNothing
TAdmissible == l > 1 => Admissible
TDetonWindow == l > 1 => DetonWindow
=============================================================================
