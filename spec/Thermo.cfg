SPECIFICATION Spec
INVARIANT OrderOK
INVARIANT RegionTotal
PROPERTY Monotone
PROPERTY RetraceResets
CONSTRAINT Small
CHECK_DEADLOCK FALSE
