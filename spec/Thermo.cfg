SPECIFICATION Spec
INVARIANT OrderOK
INVARIANT RegionTotal
PROPERTY Monotone
CONSTRAINT Small
CHECK_DEADLOCK FALSE
