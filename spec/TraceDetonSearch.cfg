SPECIFICATION TSpec
CONSTANTS
  K = 1
  SMIN = 1
  SMAX = 1
  ONLYSMALLEST = TRUE
  SLACK = 3
CONSTRAINT Progress
INVARIANT RootsSound
INVARIANT NoneMissed
INVARIANT FirstReported
INVARIANT VerdictSound
INVARIANT Covers
INVARIANT StepsBounded
POSTCONDITION TraceAccepted
CHECK_DEADLOCK FALSE
