---------------------------- MODULE TraceLib ----------------------------
(***************************************************************************)
(* Shared machinery for batched trace validation.                           *)
(*                                                                          *)
(* A batch file (path in the environment variable TRACE_FILE) is a JSON     *)
(* array of traces; a trace is a record [id |-> string, ev |-> sequence of  *)
(* event records].  Every event record has a field "e" (the event name);    *)
(* the remaining fields are the quantised observations the harness made at  *)
(* the linearisation point of that event (return or raise of a call).       *)
(*                                                                          *)
(* A trace specification EXTENDS the design module and this one, defines    *)
(* trace actions  IsEvent("X") /\ <bind logged fields> /\ X(args)  and      *)
(* uses  TraceInitLib  in its initial predicate.  One TLC run validates the *)
(* whole batch: the initial states are one per trace (tid), the variable l  *)
(* is the position in that trace.  TLC registers hold, per tid, the         *)
(* furthest line reached; the POSTCONDITION TraceAccepted demands that      *)
(* every trace was consumed to its end, and prints the rejected ones.       *)
(* Needs -workers 1 (registers) and CHECK_DEADLOCK FALSE.                   *)
(***************************************************************************)
EXTENDS Naturals, Integers, Sequences, FiniteSets, TLC, TLCExt, Json, IOUtils

Traces == JsonDeserialize(IOEnv.TRACE_FILE)
NT == Len(Traces)

VARIABLES tid, l

TLen(t) == Len(Traces[t].ev)
Ev == Traces[tid].ev[l]

TraceInitLib == tid \in 1..NT /\ l = 1

\* the next unconsumed event is called name; consume it
IsEvent(name) == /\ l <= TLen(tid)
                 /\ Ev.e = name
                 /\ l' = l + 1
                 /\ UNCHANGED tid

HasField(r, f) == f \in DOMAIN r

ASSUME \A i \in 1..NT : TLCSet(i, 0)

\* evaluated in every state (as a CONSTRAINT): remember the furthest line
Progress == IF TLCGet(tid) < l THEN TLCSet(tid, l) ELSE TRUE

Rejected == { i \in 1..NT : TLCGet(i) # TLen(i) + 1 }

TraceAccepted ==
    Cardinality({ i \in Rejected :
        PrintT(<<"REJECTED", i, "matched", TLCGet(i) - 1, "of", TLen(i)>>) }) = 0
=============================================================================
