SPECIFICATION TSpec
CONSTRAINT Progress
INVARIANT Exact
INVARIANT InBounds
INVARIANT RowMatchesSide
POSTCONDITION TraceAccepted
CHECK_DEADLOCK FALSE
