SPECIFICATION Spec
CONSTANTS
  MaxIt = 6
INVARIANT SuccIffConverged
INVARIANT MeanIffCap
PROPERTY DampingMonotone
PROPERTY ImproveSticky
CONSTRAINT CapConstraint
CHECK_DEADLOCK FALSE
