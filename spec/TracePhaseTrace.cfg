SPECIFICATION TSpec
CONSTANTS
  TL = 2
  DT = 1
  HopPossible = FALSE
CONSTRAINT Progress
INVARIANT SameBranchT
INVARIANT NoOutsideT
POSTCONDITION TraceAccepted
CHECK_DEADLOCK FALSE
