---------------------------- MODULE TraceManager ----------------------------
(* Validates recorded call histories of real WallGoManager objects against Manager.tla.            *)
(* Ref events carry the results of FRESH managers (one per (point, call)); every result observed   *)
(* in the history must be explained by the same function F of (point, call).                      *)
EXTENDS Manager, TraceLib
TRef == IsEvent("Ref") /\ Know(Ev.p, Ev.c, Ev.h) /\ UNCHANGED <<reg, cur, last>>
TRegister == IsEvent("Register") /\ Ev.out = "ok" /\ Register(Ev.m)
TSetup == IsEvent("Setup") /\
            \/ Ev.kind = "good" /\ Ev.out = "ok" /\ SetupOk(Ev.p, Ev.h)
            \/ Ev.kind \in BadInputs /\ Ev.out = "WallGoPhaseValidationError" /\ SetupRejected(Ev.p, Ev.kind)
TCall == IsEvent("Call") /\
            \/ Ev.out = "ok" /\ Call(Ev.c, Ev.h)
            \/ Ev.out = "raises" /\ CallTooEarly(Ev.c)
TInit == TraceInitLib /\ reg = "none" /\ cur = "none" /\ last = NoLast /\ F = [x \in {} |-> ""]
TNext == TRef \/ TRegister \/ TSetup \/ TCall
TSpec == TInit /\ [][TNext]_<<vars, tid, l>>
=============================================================================
