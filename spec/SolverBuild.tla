----------------------------- MODULE SolverBuild -----------------------------
(***************************************************************************)
(* WallGoManager.setupWallSolver / solveWall / solveWallDetonation          *)
(* (manager.py) as a state machine over ONE manager: what a wall solver is  *)
(* built from.  "The result is a function of the model and settings only"   *)
(* (C01) presupposes that every setting reaches the object that uses it, at *)
(* the value it has WHEN THE CALL IS MADE, and that nothing of an earlier    *)
(* build survives into the next one.                                        *)
(*                                                                          *)
(* State: the configuration (abstract value per key: "d" default, "a", "b"  *)
(* two other admissible values), the collision directory, whether a set-up  *)
(* has been done, and what the last call handed out.                        *)
(*                                                                          *)
(* Steps of a build, in the code's order, with its error exits:             *)
(*   assert set-up done          (before any set-up the code fails with an  *)
(*                                AttributeError on the missing attribute,  *)
(*                                not with the assertion: named deviation   *)
(*                                TooEarlyKind, accepted by the trace spec) *)
(*   buildGrid                   tail = max(mfp, L(1+3s)/(2r)) / Tn on both *)
(*                                sides; wall thickness L / Tn; momentum    *)
(*                                scale Tn; even N -> ValueError            *)
(*   BoltzmannSolver             basis Cardinal / Chebyshev HARD-CODED: the *)
(*                                configuration keys BoltzmannSolver.basisM *)
(*                                and basisN are not read (named deviation  *)
(*                                BasisKeysIgnored)                         *)
(*   loadCollisions              only if bIncludeOffEquilibrium; a failing  *)
(*                                load -> CollisionLoadError, nothing built *)
(*   buildEOM                    tolerances, bounds, mfp / Tn               *)
(* solveWall hands L / Tn to the deflagration search of the new EOM;        *)
(* solveWallDetonation builds first, then vmin = max(vJ + 1e-3, slowest     *)
(* detonation), vmin >= vwMaxDeton -> WallGoError, else the scan gets the   *)
(* configured point counts, overshoot probability and errTol.               *)
(*                                                                          *)
(* Lengths in ticks of 1e-3 / Tn, velocities in ticks of 1e-6.              *)
(***************************************************************************)
EXTENDS Integers, Sequences, FiniteSets, TLC

CONSTANTS Keys,          \* configuration keys that vary in this run
          Settings,      \* WallSolverSettings menu: records [incl, mfp, L]
          TickMenus      \* per run: tick values of the keys that enter arithmetic

Tags == {"d", "a", "b"}
SetTags == {"d", "b"}                 \* values the exhaustive design run assigns (the trace specification accepts all three)
NKey == "Grid.momentumGridSize"
RKey == "Grid.ratioPointsWall"
SKey == "Grid.smoothing"
VKey == "EquationOfMotion.vwMaxDeton"
EvenTags == {"b"}                    \* the menu's value "b" of the momentum grid size is even (7 / 8 / 11)

\* where each attribute of the built objects comes from
Wire == [gridM      |-> "Grid.spatialGridSize",
         gridN      |-> NKey,
         gridRatio  |-> RKey,
         gridSmooth |-> SKey,
         errTol     |-> "EquationOfMotion.errTol",
         pressRel   |-> "EquationOfMotion.pressRelErrTol",
         maxIt      |-> "EquationOfMotion.maxIterations",
         conserve   |-> "EquationOfMotion.conserveEnergyMomentum",
         thickLo    |-> "EquationOfMotion.wallThicknessLowerBound",
         thickHi    |-> "EquationOfMotion.wallThicknessUpperBound",
         offLo      |-> "EquationOfMotion.wallOffsetLowerBound",
         offHi      |-> "EquationOfMotion.wallOffsetUpperBound",
         collMult   |-> "BoltzmannSolver.collisionMultiplier"]
\* arguments of the detonation scan
DetonWire == [vmax      |-> VKey,
              nMin      |-> "EquationOfMotion.nbrPointsMinDeton",
              nMax      |-> "EquationOfMotion.nbrPointsMaxDeton",
              overshoot |-> "EquationOfMotion.overshootProbDeton",
              rtol      |-> "EquationOfMotion.errTol"]
Restrict(w) == [x \in {y \in DOMAIN w : w[y] \in Keys} |-> w[x]]
WireK == Restrict(Wire)
DetonWireK == Restrict(DetonWire)

Max(a, b) == IF a >= b THEN a ELSE b

VARIABLES cfg, dir, ready, serial, last, tk, pt
vars == <<cfg, dir, ready, serial, last, tk, pt>>

NoCall == [out |-> "none", call |-> "none"]

Init == /\ cfg = [k \in Keys |-> "d"]
        /\ dir \in {"good", "missing"}
        /\ ready = FALSE
        /\ serial = 0
        /\ last = NoCall
        /\ tk \in TickMenus
        /\ pt = [vJ |-> 0, slow |-> 0]

Val(key) == tk[key][cfg[key]]

\* the tail rule of buildGrid, in ticks of 1e-3 / Tn
TailLen(s) == Max(s.mfp, (s.L * (1000 + 3 * Val(SKey))) \div (2 * Val(RKey)))

BuildOutcome(s) == IF ~ready THEN "TooEarly"
                   ELSE IF cfg[NKey] \in EvenTags THEN "ValueError"
                   ELSE IF s.incl /\ dir = "missing" THEN "CollisionLoadError"
                   ELSE "ok"

Built(s) == [sinks |-> [x \in DOMAIN WireK |-> cfg[WireK[x]]],
             tail |-> TailLen(s), L |-> s.L, mfp |-> s.mfp, incl |-> s.incl, coll |-> s.incl, serial |-> serial + 1]

BuildOutcomeOK(o) == o \in {"ok", "WallGoError"}     \* the detonation window is tested after the solver has been built
Finish(call, o, rec) == /\ last' = IF o = "ok" THEN [out |-> "ok", call |-> call] @@ rec ELSE [out |-> o, call |-> call]
                        /\ serial' = IF BuildOutcomeOK(o) THEN serial + 1 ELSE serial
                        /\ UNCHANGED <<cfg, dir, ready, tk, pt>>

\* ---- user actions ----
SetKey(k, v) == /\ cfg' = [cfg EXCEPT ![k] = v] /\ UNCHANGED <<dir, ready, serial, last, tk, pt>>
SetDir(d) == /\ dir' = d /\ UNCHANGED <<cfg, ready, serial, last, tk, pt>>
SetupDone(vJ, slow) == /\ ready' = TRUE /\ pt' = [vJ |-> vJ, slow |-> slow] /\ UNCHANGED <<cfg, dir, serial, last, tk>>

Build(s) == Finish("build", BuildOutcome(s), [b |-> Built(s)])
Solve(s) == Finish("solve", BuildOutcome(s), [b |-> Built(s), argL |-> s.L])

VMin == Max(pt.vJ + 1000, pt.slow)
DetonOutcome(s) == LET o == BuildOutcome(s) IN IF o # "ok" THEN o ELSE IF VMin >= Val(VKey) THEN "WallGoError" ELSE "ok"
Deton(s, only) == Finish("deton", DetonOutcome(s),
                         [b |-> Built(s), argL |-> s.L, vmin |-> VMin, only |-> only,
                          args |-> [x \in DOMAIN DetonWireK |-> cfg[DetonWireK[x]]]])

Next == \/ \E k \in Keys, v \in SetTags : SetKey(k, v)
        \/ \E d \in {"good", "missing"} : SetDir(d)
        \/ \E slow \in {0, 800000} : ~ready /\ SetupDone(600000, slow)
        \/ \E s \in Settings : Build(s) \/ Solve(s) \/ \E o \in BOOLEAN : Deton(s, o)
Spec == Init /\ [][Next]_vars

\* ---- what TLC checks on the design ----
TypeOK == /\ cfg \in [Keys -> Tags] /\ dir \in {"good", "missing"} /\ ready \in BOOLEAN /\ serial \in Nat
          /\ last.out \in {"none", "ok", "TooEarly", "ValueError", "CollisionLoadError", "WallGoError"}
Ok == last.out = "ok"
\* a failing call hands out nothing
FailureGivesNothing == ~Ok => DOMAIN last = {"out", "call"}
\* no solver on an even momentum grid, none before a set-up, none with out-of-equilibrium particles but without collisions
Admissible == Ok => /\ ready /\ last.b.sinks["gridN"] \notin EvenTags /\ (last.b.incl => last.b.coll)
\* the tails cover the mean free path and the (smoothed) wall: tail >= mfp and tail * 2r >= L (1 + 3s), up to rounding
TailsCover == Ok => /\ last.b.tail >= last.b.mfp
                    /\ (last.b.tail + 1) * 2 * tk[RKey][last.b.sinks["gridRatio"]] >= last.b.L * (1000 + 3 * tk[SKey][last.b.sinks["gridSmooth"]])
\* a detonation scan starts above the Jouguet velocity and below the configured maximum
DetonWindow == (Ok /\ last.call = "deton") => /\ last.vmin > pt.vJ /\ last.vmin >= pt.slow /\ last.vmin < tk[VKey][last.args["vmax"]]
\* every call sees the configuration as it is at the time of the call (no stale value, no value cached by an earlier build)
NoStale == [][(last'.out = "ok" /\ last' # last) => \A x \in DOMAIN WireK : last'.b.sinks[x] = cfg[WireK[x]]]_vars
\* every successful build is a new one
FreshBuild == [][(last'.out = "ok" /\ last' # last) => last'.b.serial = serial + 1]_vars
\* documented counterexample: an inadmissible N sits in the configuration unnoticed until a solver is built
EvenNNeverStored == cfg[NKey] \notin EvenTags

\* ---- constants of the exhaustive design run ----
DesignKeys == {NKey, RKey, SKey, VKey}
DesignSettings == [incl : BOOLEAN, mfp : {750, 50000}, L : {20000}]
DesignTicks == {[k \in {RKey, SKey, VKey} |->
                   IF k = RKey THEN [d |-> 500, a |-> 400, b |-> 250]
                   ELSE IF k = SKey THEN [d |-> 100, a |-> 200, b |-> 450]
                   ELSE [d |-> 990000, a |-> 950000, b |-> 300000]]}
Bounded == serial <= 2
=============================================================================
