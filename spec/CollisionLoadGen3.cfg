SPECIFICATION Spec
CONSTANTS
  NP = 3
  NS = 7
  NS2 = 5
  StrictErrors = TRUE
  MoveAxis = TRUE
  TargetSizes = {3, 5, 7}
  MAXF = 2
INVARIANT Atomic
INVARIANT ErrorKind
INVARIANT SummaryAgrees
INVARIANT CompleteIffAllGood
INVARIANT PairLocalInv
PROPERTY AtomicStep
INVARIANT EmitInit
CHECK_DEADLOCK FALSE
