SPECIFICATION TSpec
CONSTRAINT Progress
POSTCONDITION TraceAccepted
CHECK_DEADLOCK FALSE
