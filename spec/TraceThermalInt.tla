---------------------------- MODULE TraceThermalInt ----------------------------
EXTENDS ThermalInt, TraceLib
CellOf(e) == IF e.kind = "integral" THEN [J |-> e.J, what |-> e.what]
             ELSE IF e.kind = "continuity" THEN [pot |-> "continuousAtTableEnd", end |-> e.end, mode |-> e.mode]
             ELSE IF e.kind = "imag" THEN [pot |-> "imaginaryOption", opt |-> e.opt, sign |-> e.sign]
             ELSE IF e.kind = "imagCW" THEN [pot |-> "imaginaryOptionCW", opt |-> e.opt, sign |-> e.sign]
             ELSE [pot |-> e.pot]
TObs == IsEvent("Obs") /\ Discharge(CellOf(Ev), Ev.d) /\ Ev.n >= 1
TEnd == IsEvent("End") /\ Complete /\ UNCHANGED vars
TInit == TraceInitLib /\ Init
TNext == TObs \/ TEnd
TSpec == TInit /\ [][TNext]_<<vars, tid, l>>
=============================================================================
