SPECIFICATION TSpec
CONSTANTS
  NF = 3
  PROP = "C08"
CONSTRAINT Progress
POSTCONDITION TraceAccepted
CHECK_DEADLOCK FALSE
