SPECIFICATION RandSpec
CONSTANTS
  MMAX = 9
  NMAX = 9
  RMAX = 4
INVARIANT LengthsAgree
INVARIANT RestrictedVanish
INVARIANT HalfWeightsAtKeptEnds
INVARIANT QuadratureRoom
INVARIANT AxisLocal
INVARIANT EmitCase
CHECK_DEADLOCK FALSE
