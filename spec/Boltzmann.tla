------------------------------- MODULE Boltzmann -------------------------------
(***************************************************************************)
(* C12 C13.  Configuration lattice of the Boltzmann solver and the moment   *)
(* table.                                                                   *)
(*                                                                          *)
(* A configuration is [bM, bN, deriv, M, N, P, bg]: position and momentum   *)
(* basis, derivative mode, grid sizes, number of particles, background      *)
(* kind.  Admissibility is the code's: finite differences need the Cardinal *)
(* basis in both directions.  The properties are relations BETWEEN          *)
(* configurations:                                                          *)
(*   Homogeneous   bg = hom              => deviation identically zero      *)
(*   SolvesSystem  every configuration   => residual at rounding level      *)
(*   BasisFree     configurations that differ only in (bM, bN) describe the *)
(*                 same phase-space function and the same moments           *)
(*   FDConverges   along the chain M = 10, 20, 40, 80 the finite-difference *)
(*                 source and Liouville term approach the spectral ones,    *)
(*                 for each background kind separately                      *)
(* and the moment table  Weight  (which powers of E and p_z each moment     *)
(* carries), with the identification test: a deviation built so that the    *)
(* integrand for weight w is exactly integrable gives the closed-form value *)
(* in moment m iff Weight[m] = w.                                           *)
(* Each case below is one job for the conformance driver.                   *)
(***************************************************************************)
EXTENDS Integers, Sequences, FiniteSets, TLC, Json

Bases == {"Cardinal", "Chebyshev"}
Derivs == {"Spectral", "Finite Difference"}
BgKinds == {"hom", "T", "v", "field", "all"}
Moments == {"D00", "D02", "D20", "D11"}
\* powers (of E, of p_z) in the integrand of each moment, over d^3p / ((2 pi)^3 E)
Weight == [D00 |-> <<0, 0>>, D02 |-> <<0, 2>>, D20 |-> <<2, 0>>, D11 |-> <<1, 1>>]

Admissible(c) == c.deriv = "Finite Difference" => (c.bM = "Cardinal" /\ c.bN = "Cardinal")

CONSTANTS Sizes,      \* set of <<M, N>>
          NSizes,     \* odd momentum sizes for the moment test
          MaxP

SizesSmall == {<<6, 3>>, <<8, 5>>, <<12, 7>>}
SizesLarge == {<<6, 3>>, <<8, 5>>, <<12, 7>>, <<16, 9>>, <<20, 11>>}

VARIABLE job
vars == <<job>>
Init == job = [active |-> FALSE]

Solve(c) == /\ ~job.active /\ Admissible(c)
            /\ job' = [active |-> TRUE, kind |-> "solve", c |-> c]
\* all four basis combinations on one (sizes, particles, background) cell
BasisCell(M, N, P, bg) == /\ ~job.active /\ bg # "hom"
                          /\ job' = [active |-> TRUE, kind |-> "basis", M |-> M, N |-> N, P |-> P, bg |-> bg]
FDChain(N, P, bg) == /\ ~job.active /\ bg # "hom"
                     /\ job' = [active |-> TRUE, kind |-> "fd", N |-> N, P |-> P, bg |-> bg, chain |-> <<10, 20, 40, 80>>]
\* call history inside one wall solver: the finite-difference cross-check (EOM.getBoltzmannFiniteDifference, which works on a
\* copy converted to the Cardinal basis) between two spectral solves of the same background must not change the second one
FDHistory(M, N, P, bN) == /\ ~job.active
                          /\ job' = [active |-> TRUE, kind |-> "fdhist", M |-> M, N |-> N, P |-> P, bN |-> bN]
\* grid: the plain momentum grid, or the three-scale grid the manager hands to the solver (its own Jacobians)
GridKinds == {"Grid", "Grid3Scales"}
\* bM, bN: the bases the solver is configured with -- the deviation is handed to getDeltas in those bases and the moments must not
\* depend on them (getDeltas converts to nodal values on every axis before it applies position-dependent weights)
\* hist: the grid was constructed at this momentum scale ("fresh") or brought to it by changeMomentumFalloffScale ("rescaled")
GridHist == {"fresh", "rescaled"}
MomentCell(N, scale, mass, g, bM, bN, h) ==
    /\ ~job.active
    /\ job' = [active |-> TRUE, kind |-> "moment", N |-> N, scale |-> scale, mass |-> mass, grid |-> g, bM |-> bM, bN |-> bN, hist |-> h]
Done == job.active /\ job' = [active |-> FALSE]

Next == \/ \E s \in Sizes, bM \in Bases, bN \in Bases, d \in Derivs, P \in 1..MaxP, bg \in BgKinds :
             Solve([bM |-> bM, bN |-> bN, deriv |-> d, M |-> s[1], N |-> s[2], P |-> P, bg |-> bg])
        \/ \E s \in Sizes, P \in 1..MaxP, bg \in BgKinds : BasisCell(s[1], s[2], P, bg)
        \/ \E N \in NSizes, P \in 1..MaxP, bg \in BgKinds : FDChain(N, P, bg)
        \/ \E s \in Sizes, P \in 1..MaxP, bN \in Bases : FDHistory(s[1], s[2], P, bN)
        \/ \E N \in NSizes, sc \in 0..3, ms \in 0..2, g \in GridKinds, bM \in Bases, bN \in Bases, h \in GridHist : MomentCell(N, sc, ms, g, bM, bN, h)
        \/ Done
Spec == Init /\ [][Next]_vars

(* facts about the case structure *)
JobOK == job.active =>
    /\ job.kind = "solve" => Admissible(job.c)
    /\ job.kind = "fd" => \A i \in 1..(Len(job.chain) - 1) : job.chain[i + 1] = 2 * job.chain[i]
\* the identification test can tell all four moments apart: no two weights coincide
WeightsDistinct == job = job /\ \A a, b \in Moments : a # b => Weight[a] # Weight[b]
\* ... and the assembled energy-momentum components use E^2, p_z^2, E p_z and m^2: each moment is needed
EmitJob == job.active => PrintT(ToJson(job))
=============================================================================
