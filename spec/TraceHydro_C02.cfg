SPECIFICATION TSpec
CONSTANTS
  K = 5
  PROP = "C02"
CONSTRAINT Progress
POSTCONDITION TraceAccepted
CHECK_DEADLOCK FALSE
