---------------------------- MODULE TraceGridMap ----------------------------
(* Trace validation for C17.  One event per public call on a real grid object;  *)
(* the observations are what the property names: strict monotonicity of the     *)
(* three physical coordinate arrays, image of the compact origin, slope at the  *)
(* centre (three-scale map), reported Jacobian vs. the derivative of the map,   *)
(* the inverse map undoing the map, and bitwise equality of every cached array  *)
(* and every scale attribute with a grid freshly constructed from the current   *)
(* parameters ("rescaling == constructing").                                    *)
EXTENDS GridMap, TraceLib

DJAC == 9        \* digits: reported Jacobian vs derivative of the map
DINV == 10       \* digits: inverse(map(x)) - x
\* smoothing above one half (menu entries 3, 4: 0.6, 0.95) with a tail 40 times the minimal one: the plateau term of the map is negative
\* and cancels against the tails; the numerical inverse (root search on the map) then reaches 9 digits (measured in 3 of 4000 histories)
DInvPos(sm) == IF sm >= 3 THEN 8 ELSE DINV
DCEN == 12       \* digits: map(0) - wallCenter (in units of the wall thickness)

Obs(o, k, sm) ==
    /\ o.mono                                  \* xi, pz, pp strictly increasing
    /\ o.dCentre >= DCEN
    /\ k = "three" => o.dSlope0 >= DCEN        \* slope at centre = L / r
    /\ o.dJac >= DJAC
    /\ o.dInvMomentum >= DINV
    /\ o.dInvPosition >= DInvPos(sm)
    /\ o.sameAsFresh                           \* cached arrays == fresh grid's, bitwise
    /\ o.pfSame                                \* positionFalloff == fresh grid's

TConstruct ==
    /\ IsEvent("Construct")
    /\ Construct(Ev.kind, Ev.p)
    /\ Ev.out = "ok" /\ Obs(Ev.obs, Ev.kind, Ev.p.s)

\* a public rescaling call = Begin followed by Recache (or by the rejection)
TChangePosition ==
    /\ IsEvent("ChangePosition")
    /\ pc = "idle"
    /\ LET q == Norm(kind, [par EXCEPT !.L = Ev.p.L, !.tin = Ev.p.tin, !.tout = Ev.p.tout, !.c = Ev.p.c]) IN
       IF Admissible(kind, q)
       THEN /\ par' = q /\ cache' = q /\ pf' = q.L /\ UNCHANGED <<kind, pc>>
            /\ Ev.out = "ok" /\ Obs(Ev.obs, kind, par.s)
       ELSE /\ UNCHANGED vars
            /\ Ev.out = "AssertionError"
            /\ Ev.obs.unchanged                \* arrays and attributes bitwise as before

TChangeMomentum ==
    /\ IsEvent("ChangeMomentum")
    /\ pc = "idle"
    /\ par' = [par EXCEPT !.T = Ev.T] /\ cache' = par' /\ UNCHANGED <<kind, pf, pc>>
    /\ Ev.out = "ok" /\ Obs(Ev.obs, kind, par.s)

TInit == TraceInitLib /\ Init
TNext == TConstruct \/ TChangePosition \/ TChangeMomentum
TSpec == TInit /\ [][TNext]_<<vars, tid, l>>
=============================================================================
