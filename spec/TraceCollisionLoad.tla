------------------------- MODULE TraceCollisionLoad -------------------------
(* Trace validation for C14.  One event per BoltzmannSolver.loadCollisions call on a *)
(* synthetic directory: the outcome must be the one the loader protocol prescribes   *)
(* for the recorded fault pattern (first failing pair in row-major order decides),   *)
(* exactly that many files may have been opened, the solver holds the previous array *)
(* after a failure and a complete new one after success, and the numeric             *)
(* observations (faithful copy, operator invariance under basis change, action of    *)
(* the interpolated operator on low-order distributions, pair locality) meet their   *)
(* digit bounds.                                                                     *)
EXTENDS CollisionLoad, TraceLib

DOP == 11
FilesOf(e) == [pr \in Pairs |-> e.files[Order(pr)]]

TLoad ==
    /\ IsEvent("Load")
    /\ Len(Ev.files) = NP * NP
    /\ LET f == FilesOf(Ev)
           exp == LoadOutcome(f, Ev.nt)
       IN
       /\ Ev.out = exp
       /\ Ev.opens = Opens(f, Ev.nt)
       /\ Ev.hadPrev = (solver # "none")
       /\ exp = "ok" =>
            /\ Ev.installed = "new"
            /\ Ev.sameBasisSameSize => Ev.exact              \* exactly the stored numbers
            /\ Ev.dOp >= DOP                                 \* operator unchanged by basis change
            /\ Ev.srcSize = SizeOf(f[<<1, 1>>])
            /\ Ev.nt < Ev.srcSize => Ev.dInterp >= DOP - 1           \* interpolated operator on low orders
            /\ Ev.dPairLocal >= DOP + 1                      \* blocks independent of other particles
            /\ Ev.basisOut = Ev.reqBasis /\ Ev.sizeOut = Ev.nt - 1
            \* used afterwards as the source of a further interpolation, the installed array is left as it was
            /\ Ev.srcUsed = (Ev.nt >= 5) /\ Ev.srcUntouched /\ Ev.dSrcAction >= DOP + 1
       /\ exp # "ok" => Ev.installed = "prev"                \* previous array (or none) still there
       /\ files' = f /\ nt' = Ev.nt /\ pc' = "done" /\ out' = exp
       /\ idx' = 1
       /\ copied' = IF exp = "ok" THEN Pairs ELSE {}
       /\ solver' = IF exp = "ok" THEN "new" ELSE (IF solver = "new" THEN "old" ELSE solver)
       /\ UNCHANGED <<firstSize, firstBasis>>

TInit == /\ TraceInitLib
         /\ files = [pr \in Pairs |-> "ok"] /\ nt = NS /\ solver \in {"none", "old"} /\ pc = "idle" /\ idx = 1
         /\ firstSize = 0 /\ firstBasis = "unset" /\ copied = {} /\ out = "none"
TNext == TLoad
TSpec == TInit /\ [][TNext]_<<vars, tid, l>>
=============================================================================
