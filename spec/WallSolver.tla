------------------------------ MODULE WallSolver ------------------------------
(***************************************************************************)
(* C01 (with C04, C09 riding on the same evaluations).  Skeleton of          *)
(* EOM.solveWall: a bracketed root search for the total pressure on the wall *)
(* over wall velocities, and the assembly of the result.                     *)
(*                                                                          *)
(* Velocities are integers (a small lattice in the design model, ticks of    *)
(* 1e-7 in trace validation).  P is what is known about the sign of the true *)
(* pressure: a TOTAL function chosen by the environment in the design model  *)
(* (arbitrary, so non-monotone pressures are covered), a partial function    *)
(* that grows with every evaluation when a recorded execution is validated.  *)
(* Per evaluation the environment also chooses conv (the pressure iteration  *)
(* converged) and tprof (a temperature profile was found); the solver's      *)
(* flags succP / succT are those LEFT BY THE LAST evaluation -- that is how  *)
(* the code reads them when it classifies the result.                        *)
(*                                                                          *)
(* Actions, in the code's order:  EvalMax, Runaway | EvalMin, DoubleMin*,    *)
(* SetAtol, Probe* (the root finder as an arbitrary bracket-shrinking        *)
(* strategy; cached ends are not re-evaluated), Terminate (bracket width     *)
(* <= xtol), FinalEval(root), Classify.                                      *)
(***************************************************************************)
EXTENDS Integers, FiniteSets, TLC

VARIABLES P,                         \* sign of the true pressure, as far as known
          wlo, whi, xtol,            \* search window and root tolerance
          pc, lo, hi, slo, shi,      \* bracket and the signs seen at its ends
          succP, succT,              \* flags left by the last evaluation
          lastV,                     \* velocity of the last evaluation
          atolSet,                   \* pressAbsErrTol already tied to the end pressures
          res                        \* result record
vars == <<P, wlo, whi, xtol, pc, lo, hi, slo, shi, succP, succT, lastV, atolSet, res>>

NoRes == [kind |-> "none", v |-> -1, succ |-> FALSE, fromV |-> -1, fromFlags |-> FALSE]

\* the sign s is observed at v: it must agree with what is known, and becomes known
Know(v, s) == IF v \in DOMAIN P THEN P[v] = s /\ P' = P ELSE P' = (v :> s) @@ P

\* one evaluation of wallPressure at v: leaves the flags behind
Eval(v, s, conv, tprof) ==
    /\ Know(v, s)
    /\ succP' = conv /\ succT' = tprof /\ lastV' = v

EvalMax(s, c, t) ==
    /\ pc = "max"
    /\ Eval(hi, s, c, t)
    /\ shi' = s
    /\ pc' = IF s < 0 THEN "runaway" ELSE "min"
    /\ UNCHANGED <<wlo, whi, xtol, lo, hi, slo, atolSet, res>>

Runaway ==
    /\ pc = "runaway"
    /\ res' = [kind |-> "RUNAWAY", v |-> -1, succ |-> TRUE, fromV |-> lastV, fromFlags |-> TRUE]
    /\ pc' = "done"
    /\ UNCHANGED <<P, wlo, whi, xtol, lo, hi, slo, shi, succP, succT, lastV, atolSet>>

EvalMin(s, c, t) ==
    /\ pc = "min"
    /\ Eval(lo, s, c, t)
    /\ slo' = s
    /\ pc' = IF s > 0 THEN "double" ELSE "atol"
    /\ UNCHANGED <<wlo, whi, xtol, lo, hi, shi, atolSet, res>>

\* while pressureMin > 0: vmin *= 2 ; give up when it reaches vmax
GiveUp ==
    /\ pc = "double" /\ (2 * lo >= hi \/ lo = 0)
    /\ res' = [kind |-> "ERROR", v |-> -1, succ |-> FALSE, fromV |-> lastV, fromFlags |-> TRUE]
    /\ pc' = "done"
    /\ UNCHANGED <<P, wlo, whi, xtol, lo, hi, slo, shi, succP, succT, lastV, atolSet>>
DoubleMin(s, c, t) ==
    /\ pc = "double" /\ ~(2 * lo >= hi \/ lo = 0)
    /\ lo' = 2 * lo
    /\ Eval(2 * lo, s, c, t)
    /\ slo' = s
    /\ pc' = IF s > 0 THEN "double" ELSE "atol"
    /\ UNCHANGED <<wlo, whi, xtol, hi, shi, atolSet, res>>

SetAtol ==
    /\ pc = "atol" /\ atolSet' = TRUE /\ pc' = "search"
    /\ UNCHANGED <<P, wlo, whi, xtol, lo, hi, slo, shi, succP, succT, lastV, res>>

\* (a few ticks of slack between "may still probe" and "may stop" when velocities are real-valued ticks)
Slack == IF xtol > 4 THEN 4 ELSE 0
\* the root finder probes a velocity strictly inside the bracket and keeps a sign-changing half
Probe(v, s, c, t) ==
    /\ pc = "search" /\ hi - lo > xtol - Slack
    /\ lo < v /\ v < hi
    /\ Eval(v, s, c, t)
    /\ IF s <= 0 THEN lo' = v /\ slo' = s /\ UNCHANGED <<hi, shi>>
                 ELSE hi' = v /\ shi' = s /\ UNCHANGED <<lo, slo>>
    /\ UNCHANGED <<wlo, whi, xtol, pc, atolSet, res>>

Terminate ==
    /\ pc = "search" /\ hi - lo <= xtol
    /\ pc' = "final"
    /\ UNCHANGED <<P, wlo, whi, xtol, lo, hi, slo, shi, succP, succT, lastV, atolSet, res>>

\* the root (inside the final bracket) is evaluated once more; the result is assembled from THAT call
FinalEval(r, s, c, t) ==
    /\ pc = "final"
    /\ lo <= r /\ r <= hi
    /\ Eval(r, s, c, t)
    /\ res' = [kind |-> "pending", v |-> r, succ |-> FALSE, fromV |-> r, fromFlags |-> FALSE]
    /\ pc' = "classify"
    /\ UNCHANGED <<wlo, whi, xtol, lo, hi, slo, shi, atolSet>>

\* Besides the two flags the code also declares an error when T+ or T- left the tabulated ranges, when the root finder did
\* not converge, and when a wall parameter sits on one of its bounds ("the solution is probably inaccurate"): clean = none
\* of these (chosen by the environment in the design model, observed or inferred when a recorded run is validated).
Classify(clean) ==
    /\ pc = "classify"
    /\ res' = IF succT /\ succP /\ clean
              THEN [res EXCEPT !.kind = "VELOCITY", !.succ = TRUE, !.fromFlags = TRUE]
              ELSE [res EXCEPT !.kind = "ERROR", !.succ = FALSE, !.fromFlags = TRUE]
    /\ pc' = "done"
    /\ UNCHANGED <<P, wlo, whi, xtol, lo, hi, slo, shi, succP, succT, lastV, atolSet>>

(* design model: lattice 0..K, total P *)
CONSTANTS K, XTOL, VMIN, VMAX
Init == /\ P \in [0..K -> {-1, 0, 1}]
        /\ wlo = VMIN /\ whi = VMAX /\ xtol = XTOL
        /\ pc = "max" /\ lo = VMIN /\ hi = VMAX /\ slo = 0 /\ shi = 0
        /\ succP = TRUE /\ succT = TRUE /\ lastV = -1 /\ atolSet = FALSE /\ res = NoRes

Signs == {-1, 0, 1}
Next == \/ \E s \in Signs, c, t \in BOOLEAN : EvalMax(s, c, t) \/ EvalMin(s, c, t) \/ DoubleMin(s, c, t)
        \/ \E v \in 0..K, s \in Signs, c, t \in BOOLEAN : Probe(v, s, c, t) \/ FinalEval(v, s, c, t)
        \/ Runaway \/ GiveUp \/ SetAtol \/ Terminate \/ (\E cl \in BOOLEAN : Classify(cl))
Spec == Init /\ [][Next]_vars

(****************************** invariants *********************************)
Done == pc = "done"
\* a reported velocity lies in a bracket of evaluated velocities with a sign change, no wider than xtol
Bracketed == (Done /\ res.kind = "VELOCITY") =>
    /\ lo <= res.v /\ res.v <= hi
    /\ lo \in DOMAIN P /\ hi \in DOMAIN P
    /\ slo = P[lo] /\ shi = P[hi]              \* both ends were really evaluated, signs as recorded
    /\ P[lo] <= 0 /\ P[hi] >= 0
    /\ hi - lo <= xtol
InWindow == (Done /\ res.kind = "VELOCITY") => (wlo <= res.v /\ res.v <= whi)
RunawaySound == (Done /\ res.kind = "RUNAWAY") => (whi \in DOMAIN P /\ P[whi] < 0 /\ res.v = -1)
ErrorLabel == Done => (~res.succ <=> res.kind = "ERROR")
\* the result is the output of the LAST evaluation, which was at the reported velocity and converged
FromConverged == (Done /\ res.kind = "VELOCITY") =>
    (res.fromV = res.v /\ lastV = res.v /\ succP /\ succT /\ res.fromFlags)
AtolBeforeSearch == pc \in {"search", "final", "classify"} => atolSet
=============================================================================
