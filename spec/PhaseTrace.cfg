SPECIFICATION Spec
CONSTANTS
  TL = 9
  DT = 2
  HopPossible = FALSE
INVARIANT SameBranch
INVARIANT OnlyWhereExists
INVARIANT FlagIffTruncated
INVARIANT CoversRequest
INVARIANT Margin
CHECK_DEADLOCK FALSE
