SPECIFICATION TSpec
CONSTANTS
  MaxIt = 20
CONSTRAINT Progress
INVARIANT SuccIffConverged
INVARIANT MeanIffCap
POSTCONDITION TraceAccepted
CHECK_DEADLOCK FALSE
