SPECIFICATION Spec
CONSTANTS
  ORDER <- OrderSmall
  Unknown = {"Grid.nosuchkey"}
PROPERTY Atomic
CHECK_DEADLOCK FALSE
