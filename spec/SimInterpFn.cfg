SPECIFICATION SSpec
CONSTANTS
  L = 12
  THR = 3
  K0 = 10
  Bad = {5}
  MAXLEN = 1
  D = 10
CONSTRAINT Bound
INVARIANT Emit
CHECK_DEADLOCK FALSE
