SPECIFICATION Spec
CONSTANTS
  Temps = {9000, 10000, 10400, 12500}
  Factors <- FactorMenu
INVARIANT TypeOK
INVARIANT HydroAfterThermo
INVARIANT ErrIffFailed
INVARIANT RejectedInputHarmless
INVARIANT HighRangeContainsTn
INVARIANT LowRangeNonEmpty
CHECK_DEADLOCK FALSE
