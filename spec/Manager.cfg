SPECIFICATION Spec
CONSTANTS
  Calls = {"info", "lte", "solve"}
  BadInputs = {"same", "order"}
  NR = 2
INVARIANT CallsAreCoherent
PROPERTY FunctionOfPointAndCall
PROPERTY InstalledOnlyBySetup
PROPERTY ModelOnlyByRegister
PROPERTY RejectedSetupHarmless
CHECK_DEADLOCK FALSE
