--------------------------- MODULE TraceInterpFn ---------------------------
(* Trace validation for C18.  Each recorded public call of a real             *)
(* InterpolatableFunction must be the corresponding InterpFn action: same     *)
(* outcome (ok / exception class), same rule applied to every element (the    *)
(* harness observes the rule: which abscissae reached _evaluateDirectly, and  *)
(* which reference value -- spline, boundary, extrapolated spline -- the      *)
(* returned number equals), same abstract state afterwards; plus the          *)
(* observations the property names: result shape, strictly increasing         *)
(* abscissae, no non-finite value in the table, every finite point kept,      *)
(* agreement with the underlying function, file round trip.                   *)
EXTENDS InterpFn, TraceLib

Acc(fn) == IF fn = "cubic" THEN 9 ELSE 3     \* digits of agreement with the true function
\* ... which a cubic spline can only deliver when the table resolves the function: for the transcendental test function
\* (fourth derivative at most 0.015 per unit^4) the spline error is about 1e-3 h^4 with end effects; h = largest gap of the
\* table in tenths of a unit
AccFor(fn, h10) == IF fn = "cubic" THEN 9
                   ELSE IF h10 <= 5 THEN 3 ELSE IF h10 <= 10 THEN 2 ELSE IF h10 <= 20 THEN 1 ELSE 0
DAcc(fn) == IF fn = "cubic" THEN 4 ELSE 1    \* same, for derivatives (finite differences)

\* the observed state after the call equals the state the model predicts
Matches(st, t) ==
    /\ st.has = t.has
    /\ t.has => (st.lo = t.lo /\ st.hi = t.hi)
    /\ st.mLo = t.mLo /\ st.mHi = t.mHi
    /\ st.ad = t.ad
    /\ t.ad => st.pend = t.pend
    /\ (t.ad /\ t.pend > 0) => (st.pLo = t.pLo /\ st.pHi = t.pHi)

\* observations every state must satisfy whatever the history
TableOK(st) ==
    /\ st.sorted                       \* abscissae strictly increasing
    /\ st.finite                       \* no non-finite value stored
    /\ st.has => st.n >= 2 /\ st.lo < st.hi

ShapeOf(sh, n, rvc) ==
    (CASE sh = "scalar" -> <<>> [] sh = "2d" -> <<2, n \div 2>> [] OTHER -> <<n>>)
    \o (IF rvc > 1 THEN <<rvc>> ELSE <<>>)

TNewTable ==
    /\ IsEvent("NewTable")
    /\ NewTable(Ev.a, Ev.b)
    /\ Ev.out = "ok"
    /\ Ev.kept = Ev.expectKept         \* non-finite points left out individually
    /\ Matches(Ev.st, s') /\ TableOK(Ev.st)

TEval ==
    /\ IsEvent("Eval")
    /\ Eval(Ev.xs, Ev.ui)
    /\ LET o == EvalOutcome(s, Ev.xs, Ev.ui) IN
       /\ Ev.out = o.out
       /\ o.out = "ok" =>
            /\ Ev.rules = o.rules
            /\ Ev.shapeOut = ShapeOf(Ev.shape, Len(Ev.xs), Ev.rvc)
            /\ Ev.d >= AccFor(Ev.fn, Ev.hmax10)
    /\ Matches(Ev.st, s') /\ TableOK(Ev.st)

TDeriv ==
    /\ IsEvent("Deriv")
    /\ Deriv(Ev.xs, Ev.order, Ev.ui)
    /\ LET o == DerivOutcome(s, Ev.xs, Ev.order, Ev.ui) IN
       /\ Ev.out = o.out
       /\ o.out = "ok" =>
            /\ Ev.rules = o.rules
            /\ Ev.shapeOut = ShapeOf(Ev.shape, Len(Ev.xs), Ev.rvc)
            /\ Ev.d >= DAcc(Ev.fn)
    /\ Matches(Ev.st, s') /\ TableOK(Ev.st)

TExtend ==
    /\ IsEvent("Extend")
    /\ Extend(Ev.a, Ev.b, Ev.kl, Ev.kh)
    /\ Ev.out = "ok"
    /\ Matches(Ev.st, s') /\ TableOK(Ev.st)

TSetModes ==
    /\ IsEvent("SetModes")
    /\ SetModes(Ev.l, Ev.u)
    /\ Ev.out = "ok"
    /\ Matches(Ev.st, s') /\ TableOK(Ev.st)

TEnable ==
    /\ IsEvent("EnableAdaptive") /\ EnableAdaptive
    /\ Matches(Ev.st, s') /\ TableOK(Ev.st)
TDisable ==
    /\ IsEvent("DisableAdaptive") /\ DisableAdaptive
    /\ Matches(Ev.st, s') /\ TableOK(Ev.st)

TWriteRead ==
    /\ IsEvent("WriteRead")
    /\ WriteRead
    /\ Ev.out = "ok"
    /\ Ev.sameN /\ Ev.sameLo /\ Ev.sameHi      \* the copy has the same table ...
    /\ Ev.dval >= 12                           \* ... and is the same function
    /\ Matches(Ev.st, s') /\ TableOK(Ev.st)

(* a table whose first or last rows were non-finite: its range is that of the rows kept, and between the dropped end and *)
(* the first kept abscissa the side's mode applies, for values and derivatives                                            *)
TEndNaN ==
    /\ IsEvent("EndNaN")
    /\ Ev.rangeKept
    /\ Ev.rule = SideRule(Ev.mode)
    /\ Ev.drule = DSideRule(Ev.mode)
    /\ UNCHANGED vars

TInit == TraceInitLib /\ Init
TNext == TNewTable \/ TEval \/ TDeriv \/ TExtend \/ TSetModes \/ TEnable \/ TDisable \/ TWriteRead \/ TEndNaN
TSpec == TInit /\ [][TNext]_<<vars, tid, l>>
=============================================================================
