------------------------------- MODULE GridMap -------------------------------
(***************************************************************************)
(* C17.  Life cycle of a WallGo Grid / Grid3Scales object: construction and *)
(* in-place rescaling.  Parameters are indices into the menus the harness   *)
(* maps to real numbers (four decades of length and momentum scales):       *)
(*   L    wall thickness / position falloff      index 0..4  (1e-2 .. 1e2)  *)
(*   tin  inside tail length  = f * L(1/2+s)/r,  index 0..3, 0 => f < 1     *)
(*   tout outside tail length, same menu          (0 is NOT admissible)     *)
(*   r    ratio of points in the wall, s smoothing, c wall centre  0..2     *)
(*   T    momentum falloff scale                   index 0..4               *)
(* State: the parameters the object currently represents (par), the         *)
(* parameters its cached coordinate arrays were computed from (cache) and   *)
(* the value of the inherited attribute positionFalloff (pf), which the     *)
(* inherited inverse map reads.  The code's rescaling calls are two steps   *)
(* (update parameters, then recompute the cache), modelled with pc, because *)
(* a rejected call must stop before the first one.                          *)
(***************************************************************************)
EXTENDS Integers, Sequences, FiniteSets, TLC

CONSTANTS NL, NTAIL, NR, NS, NC, NTMP      \* menu sizes (exhaustive run: small; traces: full menus)
Kinds == {"simple", "three"}
Par == [L : 0..NL, tin : 0..NTAIL, tout : 0..NTAIL, r : 0..NR, s : 0..NS, c : 0..NC, T : 0..NTMP]

VARIABLES kind, par, cache, pf, pc
vars == <<kind, par, cache, pf, pc>>

Admissible(k, p) == k = "simple" \/ (p.tin > 0 /\ p.tout > 0)

Init == /\ kind = "none" /\ par = [L |-> 0, tin |-> 1, tout |-> 1, r |-> 0, s |-> 0, c |-> 0, T |-> 0]
        /\ cache = par /\ pf = 0 /\ pc = "new"

\* the simple grid has no tails / ratio / smoothing / centre: keep them at fixed values
Norm(k, p) == IF k = "simple" THEN [p EXCEPT !.tin = 1, !.tout = 1, !.r = 0, !.s = 0, !.c = 0] ELSE p

Construct(k, p) ==
    /\ pc = "new" /\ Admissible(k, p)
    /\ kind' = k /\ par' = Norm(k, p) /\ cache' = Norm(k, p) /\ pf' = p.L
    /\ pc' = "idle"

\* changePositionFalloffScale: step 1 validates and assigns, step 2 recomputes the cache
ChangePositionBegin(p) ==
    /\ pc = "idle"
    /\ LET q == Norm(kind, [par EXCEPT !.L = p.L, !.tin = p.tin, !.tout = p.tout, !.c = p.c]) IN
       IF Admissible(kind, q)
       THEN /\ par' = q /\ pf' = q.L /\ pc' = "recache"
            /\ UNCHANGED <<kind, cache>>
       ELSE \* AssertionError raised before any assignment
            /\ pc' = "rejected" /\ UNCHANGED <<kind, par, cache, pf>>
ChangeMomentumBegin(t) ==
    /\ pc = "idle"
    /\ par' = [par EXCEPT !.T = t] /\ pc' = "recache"
    /\ UNCHANGED <<kind, cache, pf>>
Recache == /\ pc = "recache" /\ cache' = par /\ pc' = "idle" /\ UNCHANGED <<kind, par, pf>>
AckReject == /\ pc = "rejected" /\ pc' = "idle" /\ UNCHANGED <<kind, par, cache, pf>>

Next == \/ \E k \in Kinds, p \in Par : Construct(k, p)
        \/ \E p \in Par : ChangePositionBegin(p)
        \/ \E t \in 0..NTMP : ChangeMomentumBegin(t)
        \/ Recache \/ AckReject
Spec == Init /\ [][Next]_vars

(****************************** invariants *********************************)
\* "rescaling == constructing": whenever a call has returned, the cached arrays are those
\* of a grid constructed with the current parameters
CacheFresh == pc = "idle" => cache = par
\* every attribute any map of the object reads carries the current scale
AllScalesUpdated == pc = "idle" => pf = par.L
AlwaysAdmissible == pc \in {"idle", "recache", "rejected"} => Admissible(kind, par)
RejectedLeavesState == [][pc' = "rejected" => UNCHANGED <<kind, par, cache, pf>>]_vars
=============================================================================
