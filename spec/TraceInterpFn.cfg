SPECIFICATION TSpec
CONSTANTS
  L = 12
  THR = 3
  K0 = 10
  Bad = {5}
  MAXLEN = 1
CONSTRAINT Progress
INVARIANT TypeOK
INVARIANT RangeOK
INVARIANT PendOK
POSTCONDITION TraceAccepted
CHECK_DEADLOCK FALSE
