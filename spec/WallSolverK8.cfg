SPECIFICATION Spec
CONSTANTS
  K = 8
  XTOL = 1
  VMIN = 1
  VMAX = 8
INVARIANT Bracketed
INVARIANT InWindow
INVARIANT RunawaySound
INVARIANT ErrorLabel
INVARIANT FromConverged
INVARIANT AtolBeforeSearch
CHECK_DEADLOCK FALSE
