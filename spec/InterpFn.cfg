SPECIFICATION Spec
CONSTANTS
  L = 6
  THR = 3
  K0 = 10
  Bad = {3}
  MAXLEN = 2
INVARIANT TypeOK
INVARIANT RangeOK
INVARIANT PendOK
INVARIANT Contract
INVARIANT DContract
PROPERTY Monotone
