SPECIFICATION TSpec
CONSTANTS
  NF = 2
  PROP = "C07"
CONSTRAINT Progress
POSTCONDITION TraceAccepted
CHECK_DEADLOCK FALSE
