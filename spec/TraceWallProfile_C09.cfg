SPECIFICATION TSpec
CONSTANTS
  G = 4
  PROP = "C09"
CONSTRAINT Progress
INVARIANT BranchRight
POSTCONDITION TraceAccepted
CHECK_DEADLOCK FALSE
