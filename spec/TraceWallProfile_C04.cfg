SPECIFICATION TSpec
CONSTANTS
  G = 4
  PROP = "C04"
CONSTRAINT Progress
INVARIANT BranchRight
POSTCONDITION TraceAccepted
CHECK_DEADLOCK FALSE
