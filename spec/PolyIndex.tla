------------------------------ MODULE PolyIndex ------------------------------
(***************************************************************************)
(* C16 (reused by C13, C14).  Axis bookkeeping of WallGo.Polynomial.         *)
(*                                                                          *)
(* An axis descriptor is [dir, ep, basis] with dir in {z, pz, pp},          *)
(* ep = "boundary points included", basis in {Cardinal, Chebyshev}; or an   *)
(* Array axis [dir |-> "Array", basis |-> "Array", len |-> k].              *)
(* From the grid sizes M, N the module derives, per polynomial axis:        *)
(*   K            number of intervals (M, N, N-1); full node set 0..K,      *)
(*                node j at x_j = -cos(pi j / K)                            *)
(*   Kept         node indices that carry coefficients                      *)
(*   Orders       Chebyshev orders of the (restricted) basis                *)
(*   Restriction  none / full (T_n - 1 or T_n - x) / partial (T_n - 1)      *)
(*   HalfWeight   quadrature weight pi/K, halved at a KEPT end point        *)
(* and the descriptor algebra of changeBasis / derivative / integrate /     *)
(* evaluate.  The invariants are exact integer facts, checked by TLC for    *)
(* every case (M, N, descriptor tuple, operation); every case is then one   *)
(* test of the real Polynomial class (trace validation).                    *)
(***************************************************************************)
EXTENDS Integers, Sequences, FiniteSets, TLC, Json

CONSTANTS MMAX, NMAX, RMAX      \* sizes 2..MMAX, 2..NMAX, rank 1..RMAX

Dirs == {"z", "pz", "pp"}
Bases == {"Cardinal", "Chebyshev"}
PolyAxes == [dir : Dirs, ep : BOOLEAN, basis : Bases]
ArrAxes == {[dir |-> "Array", basis |-> "Array", len |-> k] : k \in {1, 3}}
IsPoly(a) == a.basis # "Array"

K(M, N, d) == CASE d = "z" -> M [] d = "pz" -> N [] d = "pp" -> N - 1

Kept(M, N, d, ep) ==
    IF ep THEN 0..K(M, N, d)
    ELSE IF d = "pp" THEN 0..(K(M, N, d) - 1) ELSE 1..(K(M, N, d) - 1)

Orders(M, N, d, ep) ==
    IF ep THEN 0..K(M, N, d)
    ELSE IF d = "pp" THEN 1..K(M, N, d) ELSE 2..K(M, N, d)

Restriction(d, ep) == IF ep THEN "none" ELSE IF d = "pp" THEN "partial" ELSE "full"

AxisLen(M, N, a) == IF IsPoly(a) THEN Cardinality(Kept(M, N, a.dir, a.ep)) ELSE a.len

\* the length the code demands in _checkCoefficients
CodeLen(M, N, a) ==
    IF ~IsPoly(a) THEN a.len
    ELSE LET e == IF a.ep THEN 1 ELSE 0 IN
         CASE a.dir = "z" -> M + 1 - 2 * (1 - e)
           [] a.dir = "pz" -> N + 1 - 2 * (1 - e)
           [] a.dir = "pp" -> N - (1 - e)

\* T_n(+1) = 1, T_n(-1) = (-1)^n ; value of the restricted basis function at an end
Tend(n, plus) == IF plus THEN 1 ELSE (IF n % 2 = 0 THEN 1 ELSE -1)
RestrictedAtEnd(n, r, plus) ==
    CASE r = "none" -> Tend(n, plus)
      [] r = "partial" -> Tend(n, plus) - 1
      [] r = "full" -> Tend(n, plus) - (IF n % 2 = 0 THEN 1 ELSE (IF plus THEN 1 ELSE -1))

Dropped(M, N, d, ep) == (0..K(M, N, d)) \ Kept(M, N, d, ep)

\* quadrature: is the weight of kept node j halved?
HalfWeight(M, N, d, ep, j) == j \in Kept(M, N, d, ep) /\ (j = 0 \/ j = K(M, N, d))
\* largest degree of g for which sum_j w_j g(x_j) = int g / sqrt(1-x^2) on 0..K nodes
ExactDegree(M, N, d) == 2 * K(M, N, d) - 1

(************************** descriptor algebra *****************************)
SetBasis(a, b) == IF IsPoly(a) THEN [a EXCEPT !.basis = b] ELSE a
AfterChangeBasis(axes, b) == [i \in 1..Len(axes) |-> SetBasis(axes[i], b)]
AfterDerivative(axes, S) ==
    [i \in 1..Len(axes) |-> IF i \in S THEN [axes[i] EXCEPT !.basis = "Cardinal", !.ep = TRUE]
                            ELSE axes[i]]
RemoveAxes(axes, S) == LET idx == {i \in 1..Len(axes) : i \notin S} IN
    [k \in 1..Cardinality(idx) |->
        axes[CHOOSE i \in idx : Cardinality({j \in idx : j < i}) = k - 1]]
AfterIntegrate(axes, S) == RemoveAxes(axes, S)
Shape(M, N, axes) == [i \in 1..Len(axes) |-> AxisLen(M, N, axes[i])]
\* evaluate at P points along axes S: leading point axis, evaluated axes removed
EvalShape(M, N, axes, S, P) == <<P>> \o Shape(M, N, RemoveAxes(axes, S))

(******************************* the cases *********************************)
VARIABLE c     \* current case, or [active |-> FALSE]
vars == <<c>>
Init == c = [active |-> FALSE]

AxesOf(r) == [1..r -> PolyAxes \cup ArrAxes]
PolyIdx(axes) == {i \in 1..Len(axes) : IsPoly(axes[i])}

Case(M, N, axes, op, S) ==
    /\ PolyIdx(axes) # {}
    /\ S # {} /\ S \subseteq PolyIdx(axes)
    /\ (op = "roundtrip" => S = PolyIdx(axes))
    /\ c' = [active |-> TRUE, M |-> M, N |-> N, axes |-> axes, op |-> op, S |-> S]

Ops == {"roundtrip", "evaluate", "derivative", "integrate"}
Next == \/ /\ ~c.active
           /\ \E M \in 2..MMAX, N \in 2..NMAX, r \in 1..RMAX : \E axes \in AxesOf(r) :
                \E op \in Ops, S \in SUBSET (1..r) : Case(M, N, axes, op, S)
        \/ c.active /\ c' = [active |-> FALSE]
Spec == Init /\ [][Next]_vars

(* randomised generator for ranks beyond the exhaustive bound (tlc -simulate): one random
   case per behaviour; RandomElement draws from TLC's seeded generator *)
RandNext ==
    \/ /\ ~c.active
       \* each value is bound once by quantifying over a singleton {RandomElement(..)}
       /\ \E M \in {RandomElement(2..MMAX)}, N \in {RandomElement(2..NMAX)},
             r \in {RandomElement(3..RMAX)}, op \in {RandomElement(Ops)} :
            \E axes \in {[i \in 1..r |-> RandomElement(PolyAxes \cup ArrAxes)]} :
               /\ PolyIdx(axes) # {}
               /\ \E S \in {IF op = "roundtrip" THEN PolyIdx(axes)
                             ELSE RandomElement(SUBSET PolyIdx(axes) \ {{}})} :
                    Case(M, N, axes, op, S)
    \/ c.active /\ c' = [active |-> FALSE]
RandSpec == Init /\ [][RandNext]_vars

(****************************** invariants *********************************)
PolyOf == {c.axes[i] : i \in PolyIdx(c.axes)}

LengthsAgree == c.active => \A a \in PolyOf :
    /\ AxisLen(c.M, c.N, a) = CodeLen(c.M, c.N, a)                         \* code's size check
    /\ Cardinality(Orders(c.M, c.N, a.dir, a.ep)) = AxisLen(c.M, c.N, a)   \* square transform
    /\ AxisLen(c.M, c.N, a) >= 1

RestrictedVanish == c.active => \A a \in PolyOf :
    \A n \in Orders(c.M, c.N, a.dir, a.ep), j \in Dropped(c.M, c.N, a.dir, a.ep) :
       /\ j \in {0, K(c.M, c.N, a.dir)}                      \* only end points are ever dropped
       /\ RestrictedAtEnd(n, Restriction(a.dir, a.ep), j # 0) = 0

HalfWeightsAtKeptEnds == c.active => \A a \in PolyOf :
    \A j \in 0..K(c.M, c.N, a.dir) :
       HalfWeight(c.M, c.N, a.dir, a.ep, j) <=>
          /\ j \in {0, K(c.M, c.N, a.dir)}
          /\ (a.ep \/ (a.dir = "pp" /\ j = 0))

(* degree bookkeeping: a polynomial on the axis has degree <= K; with the weight
   sqrt(1-x^2) q(x) the quadrature integrand g = (1-x^2) P q is in the exactness class
   iff deg q <= 2K - 3 - deg P; there is always room for q of degree K - 3 when K >= 3 *)
QuadratureRoom == c.active => \A a \in PolyOf :
    LET k == K(c.M, c.N, a.dir) IN k >= 1 /\ ExactDegree(c.M, c.N, a.dir) = 2 * k - 1

AxisLocal == c.active =>
    /\ \A i \in 1..Len(c.axes) : i \notin c.S =>
          /\ AfterDerivative(c.axes, c.S)[i] = c.axes[i]
          /\ AfterChangeBasis(c.axes, "Chebyshev")[i].dir = c.axes[i].dir
    /\ Len(AfterIntegrate(c.axes, c.S)) = Len(c.axes) - Cardinality(c.S)
    /\ \A i \in c.S : AfterDerivative(c.axes, c.S)[i].ep
                      /\ AfterDerivative(c.axes, c.S)[i].basis = "Cardinal"
    \* derivative on S = derivative on S1 then on S2, for any split
    /\ \A S1 \in SUBSET c.S :
          AfterDerivative(AfterDerivative(c.axes, S1), c.S \ S1) = AfterDerivative(c.axes, c.S)

(* case generator: every case is printed once as JSON and becomes one implementation test *)
EmitCase == c.active => PrintT(ToJson(c))
=============================================================================
