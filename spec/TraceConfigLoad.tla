--------------------------- MODULE TraceConfigLoad ---------------------------
(* Validates recorded loads of real WallGo.Config objects against ConfigLoad.tla: outcome of every load and the whole       *)
(* configuration after it (all 27 keys, abstract values), over sequences of loads on one object.                           *)
EXTENDS ConfigLoad, TraceLib
FileOf(e) == [k \in {e.keys[q] : q \in 1..Len(e.keys)} |-> e.vals[CHOOSE q \in 1..Len(e.keys) : e.keys[q] = k]]
TLoad ==
    /\ IsEvent("Load")
    /\ \A q \in 1..Len(Ev.keys) : Ev.keys[q] \in Known \cup Unknown /\ Ev.vals[q] \in Written
    /\ Load(FileOf(Ev))
    /\ last' = Ev.out
    /\ Len(Ev.st) = Len(ORDER)
    /\ \A j \in 1..Len(ORDER) : cfg'[ORDER[j][1]] = Ev.st[j]
\* a configuration object created afterwards starts from the defaults (no state shared between objects)
TFresh == IsEvent("Fresh") /\ Ev.allDefault /\ UNCHANGED vars
TInit == TraceInitLib /\ Init
TNext == TLoad \/ TFresh
TSpec == TInit /\ [][TNext]_<<vars, tid, l>>
=============================================================================
