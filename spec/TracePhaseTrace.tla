--------------------------- MODULE TracePhaseTrace ---------------------------
(* Trace validation for C11.  One event per real FreeEnergy.tracePhase call on a       *)
(* potential with closed-form phases.  Temperatures are ticks (T / T0 * 1e5); the      *)
(* truth (sLo, sHi: where the starting branch exists) comes from the closed form, the  *)
(* table from the traced object.  The event must be a behaviour of PhaseTrace with     *)
(* HopPossible = FALSE ending in the recorded table; all invariants of the design      *)
(* model are evaluated on it, plus the per-entry observations the property names.      *)
EXTENDS PhaseTrace, TraceLib

TOLT == 2            \* ticks: equality of temperatures
NEAR == 40           \* ticks: a spinodal this close to a requested end is "at the threshold"
DigitsOf(rt) == rt   \* rTol is logged as its number of digits (4, 6, 8)
\* The spline between table points is only as good as the step: the interpolation clause is
\* demanded for step sizes consistent with the tolerance, dT <= 3 * (temperature scale) * rTol^(1/4)
\* (the manager's own rule with temperature scale 0.05 T0 = 5000 ticks), in ticks:
ConsistentStep(rt) == CASE rt = 4 -> 1500 [] rt = 6 -> 474 [] rt = 8 -> 150 [] OTHER -> 0

Abs(x) == IF x < 0 THEN -x ELSE x
Close(a, b) == Abs(a - b) <= TOLT

TTrace ==
    /\ IsEvent("Trace")
    /\ dir = "up"
    /\ LET e == Ev
           truncLo == e.sLo > e.rLo + NEAR          \* branch certainly ends inside the request
           truncHi == e.sHi < e.rHi - NEAR
           fullLo == e.sLo < e.rLo - NEAR           \* branch certainly covers the requested end
           fullHi == e.sHi > e.rHi + NEAR
       IN
       /\ e.out = "ok"
       /\ e.monotone /\ e.n >= 2
       \* SameBranch / genuine minimum / tabulated value
       /\ e.nOther = 0
       /\ e.hessPos
       /\ e.dGrad >= 1                              \* gradient small against the potential's own scale
       /\ e.dPhi >= (DigitsOf(e.rTol) \div 2) - 1    \* table entries are the exact minimum to tracing tolerance
       /\ e.dV >= 9
       \* OnlyWhereExists: the reported range (table ends -/+ the 2 dT margin) stops before the spinodal
       /\ e.nOutside = 0
       /\ e.nRawOutside = 0                          \* nor does a raw entry inside the margin lie past a spinodal
       /\ e.rangeLo >= e.sLo - TOLT /\ e.rangeHi <= e.sHi + TOLT
       \* FlagIffTruncated and CoversRequest (threshold cases exempt, as the quantifier allows)
       /\ truncLo => e.flagLo
       /\ truncHi => e.flagHi
       /\ fullLo => (~e.flagLo /\ Close(e.tabLo, e.rLo))
       /\ fullHi => (~e.flagHi /\ Close(e.tabHi, e.rHi))
       \* documented safety margin
       /\ Close(e.rangeLo, e.tabLo + 2 * e.dT) /\ Close(e.rangeHi, e.tabHi - 2 * e.dT)
       \* interpolation accuracy vs the exact minimum
       /\ e.dT <= ConsistentStep(e.rTol) =>
            /\ e.dInterpV >= DigitsOf(e.rTol) - 1
            /\ e.dInterpPhi >= (DigitsOf(e.rTol) \div 2) - 1
       \* bind the design model's summary variables to the observation
       /\ t0' = e.t0 /\ rLo' = e.rLo /\ rHi' = e.rHi /\ sLo' = e.sLo /\ sHi' = e.sHi
       /\ paranoid' = e.paranoid /\ dir' = "done" /\ t' = e.t0
       /\ tabLo' = e.tabLo /\ tabHi' = e.tabHi /\ hop' = (e.nOther > 0) /\ outside' = (e.nOutside > 0)
       /\ flagLo' = e.flagLo /\ flagHi' = e.flagHi /\ rangeLo' = e.rangeLo /\ rangeHi' = e.rangeHi

(* critical temperature of two traced phases *)
TTc ==
    /\ IsEvent("Tc")
    /\ Ev.out = "ok"
    /\ Ev.dTc >= DigitsOf(Ev.rTol) - 2             \* Tc vs closed form
    /\ Ev.lowFavouredBelow                          \* low-temperature phase has lower free energy below Tc
    /\ UNCHANGED vars

TInit == /\ TraceInitLib
         /\ t0 = 1 /\ rLo = 0 /\ rHi = 2 /\ sLo = 0 /\ sHi = 2 /\ paranoid = TRUE
         /\ dir = "up" /\ t = 1 /\ tabLo = 1 /\ tabHi = 1 /\ hop = FALSE /\ outside = FALSE
         /\ flagLo = FALSE /\ flagHi = FALSE /\ rangeLo = 0 /\ rangeHi = 0
TNext == TTrace \/ (TTc /\ UNCHANGED <<>>)
TSpec == TInit /\ [][TNext]_<<vars, tid, l>>

SameBranchT == SameBranch
NoOutsideT == ~outside
=============================================================================
