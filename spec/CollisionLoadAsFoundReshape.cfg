SPECIFICATION Spec
CONSTANTS
  NP = 2
  NS = 7
  NS2 = 5
  StrictErrors = TRUE
  MoveAxis = FALSE
  TargetSizes = {3, 5, 7}
  MAXF = 9
INVARIANT Atomic
INVARIANT ErrorKind
INVARIANT SummaryAgrees
INVARIANT CompleteIffAllGood
INVARIANT PairLocalInv
PROPERTY AtomicStep
CHECK_DEADLOCK FALSE
