SPECIFICATION Spec
INVARIANT TablesIntegral
INVARIANT AllRowsExact
INVARIANT Exact
INVARIANT InBounds
INVARIANT RowMatchesSide
INVARIANT EnoughPoints
INVARIANT HessianExact
INVARIANT GradientExact
