SPECIFICATION Spec
CONSTANTS
  NL = 2
  NTAIL = 2
  NR = 1
  NS = 1
  NC = 1
  NTMP = 2
INVARIANT CacheFresh
INVARIANT AllScalesUpdated
INVARIANT AlwaysAdmissible
PROPERTY RejectedLeavesState
