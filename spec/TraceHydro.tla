------------------------------ MODULE TraceHydro ------------------------------
(* Trace validation for C02 C03 C05 C06 C15.  One trace = one equation of state and       *)
(* nucleation temperature: Setup, one Match per wall velocity, LTE.  Velocities are ticks  *)
(* of 1e-7, temperatures ticks of 1e-6 Tn, residuals digit classes.  The constant PROP     *)
(* selects which property's clauses are demanded (the other observations ride along).     *)
EXTENDS HydroMatch, TraceLib

CONSTANT PROP

VARIABLES setup, seen
tvars == <<setup, seen>>

ONE == 10000000                     \* velocity 1 in ticks
EPSV == 30                          \* ticks: equality of velocities (3e-6)
EPST == 30                          \* ticks: equality of temperatures (3e-5 Tn)
Abs(x) == IF x < 0 THEN -x ELSE x
Near(a, b, tol) == Abs(a - b) <= tol

\* flux residual bound: 100 * rtol * gamma_w^2 * max(1, 0.1/alpha_n) with rtol = 1e-6.  The matching
\* temperatures are found to a tolerance relative to T, while the fluxes depend on T- - T+ ~ alpha_n T:
\* for weak transitions the tolerance is amplified by 1/alpha_n (alN in ticks of 1e-7).
Weak(alN) == IF alN >= 1000000 THEN 0 ELSE IF alN >= 100000 THEN 1 ELSE 2
DFluxV(vw) == IF vw <= 9000000 THEN 4 ELSE IF vw <= 9700000 THEN 3 ELSE 2
DFlux(vw) == IF DFluxV(vw) - Weak(setup.alN) < 1 THEN 1 ELSE DFluxV(vw) - Weak(setup.alN)
EpsDet == IF Weak(setup.alN) = 0 THEN EPSV ELSE IF Weak(setup.alN) = 1 THEN 10 * EPSV ELSE 100 * EPSV
D3 == 4                             \* nucleation temperature reached ahead of the shock
D3W == IF D3 - Weak(setup.alN) < 2 THEN 2 ELSE D3 - Weak(setup.alN)    \* same, weak transitions (tolerance / alpha_n)
AgreeTol(t) == IF Weak(setup.alN) = 0 THEN t ELSE IF Weak(setup.alN) = 1 THEN 10 * t ELSE 100 * t
D4 == 2                             \* efficiency factor vs kinetic-energy integral of the same profile

FamilyOf(e) == Family(e.vw, e.csm, setup.vJ)
NearBoundary(e) == Near(e.vw, setup.vJ, 2000) \/ Near(e.vw, e.csm, 2000)

Conserved(e) ==                                         \* C02
    /\ e.dE >= DFlux(e.vw) /\ e.dM >= DFlux(e.vw)
    /\ e.dC1 >= DFlux(e.vw) /\ e.dC2 >= DFlux(e.vw)
    /\ e.dMid >= 12 /\ e.sameT
    /\ e.success                                        \* the 2x2 matching solve converged

ReachesTn(e) ==                                         \* C03
    /\ e.vw > setup.vJ => (e.Tp = 1000000 /\ e.vp = e.vw)        \* detonation: undisturbed plasma ahead, exactly
    /\ e.vw <= setup.vJ => e.dTn >= D3W
    /\ (e.vw <= setup.vJ /\ e.csConst) => e.dMom >= D3W
    \* (skipped where the flux tolerance itself is down to one digit: weak transition at vw > 0.97)
    /\ DFlux(e.vw) > 1 => e.dKappa >= D4

Admissible(e) ==                                        \* C06
    /\ 0 < e.vp /\ e.vp < ONE /\ 0 < e.vm /\ e.vm < ONE /\ e.Tp > 0 /\ e.Tm > 0 /\ e.csmOK
    /\ LET f == FamilyOf(e) IN
       \/ NearBoundary(e)
       \/ /\ f = "deflagration" => (Near(e.vm, e.vw, EPSV) /\ e.vm <= e.csm + EPSV /\ e.vp < e.vm /\ e.Tp >= 1000000 - EpsDet)   \* T+ > Tn within the (amplified) tolerance
          /\ f = "hybrid" => Near(e.vm, e.csm, EPSV)
          /\ f = "detonation" => (e.vp = e.vw /\ e.vm < e.vp + EpsDet /\ e.vm >= e.csm - EpsDet)
    \* advertised fastest deflagration: slower walls have both temperatures inside the tabulated
    \* ranges, and it is the velocity at which a range is reached (not something smaller)
    /\ ("fastest" \in DOMAIN setup /\ e.vw <= setup.vJ) =>
          /\ e.vw < setup.fastest - 2000 => (e.Tm <= setup.TMaxLow + EPST /\ e.Tp <= setup.TMaxHigh + EPST)
          /\ (e.vw > setup.fastest + 2000 /\ setup.fastest < setup.vJ - 2000) =>
                (e.Tm >= setup.TMaxLow - EPST \/ e.Tp >= setup.TMaxHigh - EPST)

\* advertised slowest detonation (the root of T- = TMaxLowT plus the documented 0.01; vJ if the range is never reached,
\* 1 if it is exceeded up to vw = 1): from there on T- is inside the low-T range, and it is not more conservative than that
SlowestSound(e) ==
    ("slowest" \in DOMAIN setup /\ e.vw > setup.vJ + 2000) =>
          /\ e.vw >= setup.slowest => e.Tm <= setup.TMaxLow + EPST
          /\ (e.vw < setup.slowest - 102000 /\ setup.slowest < ONE) => e.Tm >= setup.TMaxLow - EPST

Agrees(e) ==                                            \* C15 (template equations of state only)
    setup.isTemplate =>
       /\ e.tOut = "ok"
       /\ NearBoundary(e) \/
            /\ Near(e.vp, e.tvp, AgreeTol(1000)) /\ Near(e.vm, e.tvm, AgreeTol(1000))      \* 1e-4 (x 1/alpha_n when weak)
            /\ Near(e.Tp, e.tTp, AgreeTol(100)) /\ Near(e.Tm, e.tTm, AgreeTol(100))        \* 1e-4 Tn
            /\ e.dC1t >= 3 - Weak(setup.alN) /\ e.dC2t >= 3 - Weak(setup.alN)
            /\ e.dKappaT >= 2 - Weak(setup.alN)

TSetup ==
    /\ IsEvent("Setup")
    /\ setup = [none |-> TRUE]
    /\ HasField(Ev, "vMin")                        \* a set-up that raised (Ev.out is the exception) is not accepted
    /\ Ev.vMin <= Ev.vJ /\ Ev.vJ < ONE /\ Ev.vJ > Ev.cb - EPSV          \* Jouguet velocity above the sound speed behind
    /\ PROP = "C15" => (Ev.isTemplate => (Near(Ev.vJ, Ev.tvJ, 20) /\ Near(Ev.vMin, IF Ev.tvMin < 10000 THEN 10000 ELSE Ev.tvMin, 1000)))
    /\ setup' = Ev /\ seen' = <<>>
    /\ UNCHANGED vars

TMatch ==
    /\ IsEvent("Match")
    /\ "vJ" \in DOMAIN setup
    /\ Ev.out = "ok"
    \* An exact matching exists for these equations of state, so the template fallback must not be
    \* taken -- except in the sliver above vMin where v+ < 1e-3 lies below the solver's documented
    \* bracket (threshold region, exempt and counted), and there only the exact flux clauses decide.
    /\ Ev.fallback => (Ev.vw < setup.vMin + 100000 \/ Ev.vp <= 11000)     \* (for strong transitions v+ < 1e-3 well above vMin)
    /\ PROP = "C02" => Conserved(Ev)
    /\ PROP = "C03" => ReachesTn(Ev)
    /\ PROP = "C06" => (Admissible(Ev) /\ SlowestSound(Ev))
    /\ PROP = "C15" => Agrees(Ev)
    /\ seen' = Append(seen, [vw |-> Ev.vw, E |-> -Ev.sS, dS |-> Ev.dS, inWindow |-> Ev.vw <= setup.vJ])
    /\ UNCHANGED <<vars, setup>>

Window == SelectSeq(seen, LAMBDA r : r.inWindow /\ r.dS <= 5)    \* entries with a resolvable mismatch sign

TLte ==
    /\ IsEvent("LTE")
    /\ Ev.out = "ok"
    /\ PROP = "C05" =>
         /\ Ev.mgrSame                                          \* WallGoManager.wallSpeedLTE returns the same value (sentinels included)
         /\ Ev.ret = "root" =>
              /\ Ev.dSroot >= 5 /\ Ev.rootMatchOK               \* entropy flux conserved at the returned velocity
              /\ setup.vMin <= Ev.v /\ Ev.v <= setup.vJ
              /\ \A i \in 1..Len(Window) :                      \* mismatch changes sign exactly there
                    (Window[i].vw < Ev.v - 3000 => Window[i].E = -1) /\ (Window[i].vw > Ev.v + 3000 => Window[i].E = 1)
         /\ Ev.ret = "one" => \A i \in 1..Len(Window) : Window[i].E = -1     \* one sign over the whole window
         /\ Ev.ret = "zero" => (Len(Window) > 0 => Window[1].E = 1)          \* stopping sign already at the bottom
    /\ PROP = "C15" => (setup.isTemplate =>
         /\ Ev.tout = "ok"
         /\ Ev.tret = Ev.ret
         /\ Ev.ret = "root" => Near(Ev.v, Ev.tv, 1000))
    /\ UNCHANGED <<vars, setup, seen>>

\* efficiency factor of plain deflagrations (slow walls included, down to the solver's own vMin) against the kinetic-energy
\* integral of the flow profile that starts from the returned matching: relative, 1e-3 (C03; for C15 general vs template)
TKappa ==
    /\ IsEvent("Kappa")
    /\ "vJ" \in DOMAIN setup
    /\ Ev.out = "ok"
    /\ PROP = "C03" => Ev.dKappaRel >= 3
    \* (below vw = 0.03 the general solver's matching itself is the subject of known finding C02-F1 / C15-F3)
    /\ PROP = "C15" => ((setup.isTemplate /\ Ev.vw >= 300000) => Ev.dKappaTRel >= 3 - Weak(setup.alN))
    /\ UNCHANGED <<vars, setup, seen>>

TInit == TraceInitLib /\ mode = "trace" /\ st = [none |-> TRUE] /\ setup = [none |-> TRUE] /\ seen = <<>>
\* call history: a matching asked for right after one at a velocity 3e-6 away, on an object that has answered many calls, is the
\* matching a new object gives (velocities in ticks of 1e-7, temperatures in ticks of 1e-6 Tn: the two runs are the same arithmetic)
THist ==
    /\ IsEvent("Hist")
    /\ "vJ" \in DOMAIN setup
    /\ Ev.out = "ok"
    /\ Ev.dTicks <= 2
    /\ UNCHANGED <<vars, setup, seen>>

TNext == TSetup \/ TMatch \/ TLte \/ TKappa \/ THist
TSpec == TInit /\ [][TNext]_<<vars, tvars, tid, l>>
=============================================================================
