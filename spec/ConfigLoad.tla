----------------------------- MODULE ConfigLoad -----------------------------
(***************************************************************************)
(* Config.loadConfigFromFile (config.py) as a state update.  The            *)
(* configuration is a function from the 27 known keys to abstract values    *)
(* ("d" = the default, "a" and "b" = two distinct admissible values, "t" = *)
(* an arbitrary token, which only the free-text keys can hold).  A file is a   *)
(* partial function from keys -- known ones and unknown ones -- to what is  *)
(* written for them: "a", "b", "none" (the literal None) or "bad" (a token  *)
(* that does not parse as the key's type).                                  *)
(*                                                                          *)
(* The code reads the known keys in a fixed order and assigns as it goes:   *)
(* keys absent from the file keep their value, unknown keys and sections    *)
(* are ignored, and a value that does not parse raises ValueError AFTER the *)
(* keys before it (in the code's order) have been assigned.  Several loads  *)
(* compose; a later file overrides only what it mentions.                   *)
(***************************************************************************)
EXTENDS Integers, Sequences, FiniteSets, TLC

\* the code's reading order, with the type of each key
OrderFull == <<
  <<"Grid.spatialGridSize", "int">>, <<"Grid.momentumGridSize", "int">>, <<"Grid.ratioPointsWall", "float">>, <<"Grid.smoothing", "float">>,
  <<"EquationOfMotion.errTol", "float">>, <<"EquationOfMotion.pressRelErrTol", "float">>, <<"EquationOfMotion.maxIterations", "int">>,
  <<"EquationOfMotion.conserveEnergyMomentum", "bool">>, <<"EquationOfMotion.wallThicknessLowerBound", "float">>,
  <<"EquationOfMotion.wallThicknessUpperBound", "float">>, <<"EquationOfMotion.wallOffsetLowerBound", "float">>,
  <<"EquationOfMotion.wallOffsetUpperBound", "float">>, <<"EquationOfMotion.vwMaxDeton", "float">>, <<"EquationOfMotion.nbrPointsMinDeton", "int">>,
  <<"EquationOfMotion.nbrPointsMaxDeton", "int">>, <<"EquationOfMotion.overshootProbDeton", "float">>,
  <<"Hydrodynamics.tmin", "float">>, <<"Hydrodynamics.tmax", "float">>, <<"Hydrodynamics.relativeTol", "float">>, <<"Hydrodynamics.absoluteTol", "float">>,
  <<"Thermodynamics.tmin", "float">>, <<"Thermodynamics.tmax", "float">>, <<"Thermodynamics.phaseTracerTol", "float">>,
  <<"Thermodynamics.phaseTracerFirstStep", "optfloat">>,
  <<"BoltzmannSolver.collisionMultiplier", "float">>, <<"BoltzmannSolver.basisM", "str">>, <<"BoltzmannSolver.basisN", "str">> >>
OrderSmall == << <<"Grid.spatialGridSize", "int">>, <<"EquationOfMotion.conserveEnergyMomentum", "bool">>,
                 <<"Thermodynamics.phaseTracerFirstStep", "optfloat">>, <<"BoltzmannSolver.basisM", "str">> >>

CONSTANTS ORDER,        \* OrderFull or OrderSmall
          Unknown       \* names of keys the code does not know (other sections, misspelt keys)
Known == {ORDER[j][1] : j \in 1..Len(ORDER)}
TypeOf(k) == LET j == CHOOSE j \in 1..Len(ORDER) : ORDER[j][1] = k IN ORDER[j][2]
Written == {"a", "b", "none", "bad"}

\* what a written token becomes for a key of type ty: a value, or "raise"
Parse(ty, w) ==
    CASE w \in {"a", "b"} -> w
      [] w = "none" -> IF ty = "optfloat" THEN "d"              \* the literal None is the default of that key
                       ELSE IF ty = "str" THEN "t" ELSE "raise"
      [] OTHER -> IF ty = "str" THEN "t" ELSE "raise"           \* free text is accepted as it is

VARIABLES cfg, last
vars == <<cfg, last>>
\* (a boolean key has only two values: its default, True, is the value "a")
DefaultOf(ty) == IF ty = "bool" THEN "a" ELSE "d"
Init == cfg = [k \in Known |-> DefaultOf(TypeOf(k))] /\ last = "none"

\* position in the reading order of the first key of the file whose value does not parse (0 = none)
FirstBad(f) ==
    LET bad == {j \in 1..Len(ORDER) : ORDER[j][1] \in DOMAIN f /\ Parse(ORDER[j][2], f[ORDER[j][1]]) = "raise"}
    IN IF bad = {} THEN 0 ELSE CHOOSE j \in bad : \A q \in bad : j <= q
Pos(k) == CHOOSE j \in 1..Len(ORDER) : ORDER[j][1] = k

Load(f) ==
    LET b == FirstBad(f) IN
    /\ cfg' = [k \in Known |->
                 IF k \in DOMAIN f /\ (b = 0 \/ Pos(k) < b) THEN Parse(TypeOf(k), f[k]) ELSE cfg[k]]
    /\ last' = IF b = 0 THEN "ok" ELSE "ValueError"

Files == UNION {[S -> Written] : S \in SUBSET (Known \cup Unknown)}
Next == \E f \in Files : Load(f)
Spec == Init /\ [][Next]_vars

(****************************** properties *********************************)
\* a key the file does not mention keeps its value; unknown keys change nothing
Untouched == [][\A k \in Known : cfg'[k] # cfg[k] => last' \in {"ok", "ValueError"}]_vars
TypeOK == \A k \in Known : cfg[k] \in {"d", "a", "b", "t"} /\ (cfg[k] = "t" => TypeOf(k) = "str")
\* NOT a property of the code (documented counterexample, ConfigLoadAtomic.cfg): a load that raises leaves the
\* configuration as it was.  The code assigns key by key, so the keys read before the offending one are already changed.
Atomic == [][last' = "ValueError" => cfg' = cfg]_vars
=============================================================================
