SPECIFICATION TSpec
CONSTANTS
  K = 5
  PROP = "C15"
CONSTRAINT Progress
POSTCONDITION TraceAccepted
CHECK_DEADLOCK FALSE
