SPECIFICATION Spec
INVARIANT CellCount
PROPERTY Monotone
CONSTRAINT Small
CHECK_DEADLOCK FALSE
