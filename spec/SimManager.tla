----------------------------- MODULE SimManager -----------------------------
(* Behaviour generator for the history clause of C01: call histories of one WallGoManager. *)
EXTENDS Manager, Json
CONSTANT D
VARIABLE hist
One == [k \in Points \X Calls |-> 1]
Log(r) == hist' = Append(hist, r)
(* the simulator restarts its random stream for every behaviour: variety of the opening comes from the set of
   initial states -- every (first point, first call, optional too-early call) *)
SInit == \E p \in Points, c \in Calls \ {"info"}, early \in BOOLEAN :
            /\ reg = ModelOf[p] /\ cur = p /\ F = One /\ last = [op |-> "Call", c |-> c, p |-> p, out |-> "ok"]
            /\ hist = (IF early THEN <<[op |-> "CallTooEarly", c |-> c]>> ELSE <<>>)
                      \o <<[op |-> "Register", m |-> ModelOf[p]], [op |-> "Setup", p |-> p, kind |-> "good"], [op |-> "Call", c |-> c]>>
SNext ==
  \/ \E m \in Models : m # reg /\ Register(m) /\ Log([op |-> "Register", m |-> m])
  \/ \E p \in Points : SetupOk(p, 1) /\ Log([op |-> "Setup", p |-> p, kind |-> "good"])
  \/ \E p \in Points, w \in BadInputs : SetupRejected(p, w) /\ Log([op |-> "Setup", p |-> p, kind |-> w])
  \/ \E c \in Calls : Call(c, 1) /\ Log([op |-> "Call", c |-> c])
SSpec == SInit /\ [][SNext]_<<vars, hist>>
Bound == Len(hist) <= D
\* only histories that end with a solver call on a coherent manager are worth executing
Emit == (Len(hist) = D /\ last.op = "Call") => PrintT(ToJson(hist))
=============================================================================
