SPECIFICATION TSpec
CONSTANTS
  Temps = {10000}
  Factors <- FactorMenu
CONSTRAINT Progress
INVARIANT TypeOK
INVARIANT HydroAfterThermo
INVARIANT ErrIffFailed
INVARIANT RejectedInputHarmless
POSTCONDITION TraceAccepted
CHECK_DEADLOCK FALSE
