SPECIFICATION TSpec
CONSTANTS
  K = 5
  PROP = "C06"
CONSTRAINT Progress
POSTCONDITION TraceAccepted
CHECK_DEADLOCK FALSE
