--------------------------- MODULE MC_PressureIter ---------------------------
EXTENDS Integers

VARIABLES
    \* @type: Int;
    maxIt,
    \* @type: Int;
    i,
    \* @type: Int;
    n,
    \* @type: Int;
    k,
    \* @type: Bool;
    improve,
    \* @type: Str;
    pc,
    \* @type: Bool;
    succ,
    \* @type: Str;
    exit,
    \* @type: Bool;
    mean

MaxIt == 20
INSTANCE PressureIter

\* inductive invariant: unbounded in the number of passes and in maxIterations
IndInv ==
    /\ maxIt >= 2 /\ i >= 0 /\ n = i + 1 /\ k >= 0
    /\ improve \in BOOLEAN /\ succ \in BOOLEAN /\ mean \in BOOLEAN
    /\ pc \in {"loop", "done"} /\ exit \in {"none", "converged", "cap"}
    /\ pc = "loop" => (succ /\ exit = "none" /\ ~mean)
    /\ pc = "done" => (exit # "none" /\ (succ <=> exit = "converged") /\ (mean <=> exit = "cap"))
IndInit ==
    /\ maxIt \in Int /\ i \in Int /\ n \in Int /\ k \in Int
    /\ improve \in BOOLEAN /\ succ \in BOOLEAN /\ mean \in BOOLEAN
    /\ pc \in {"loop", "done"} /\ exit \in {"none", "converged", "cap"}
    /\ IndInv
Safety == SuccIffConverged /\ MeanIffCap
=============================================================================
