SPECIFICATION Spec
CONSTANTS
  Keys <- DesignKeys
  Settings <- DesignSettings
  TickMenus <- DesignTicks
INVARIANT TypeOK
INVARIANT FailureGivesNothing
INVARIANT Admissible
INVARIANT TailsCover
INVARIANT DetonWindow
PROPERTY NoStale
PROPERTY FreshBuild
CONSTRAINT Bounded
CHECK_DEADLOCK FALSE
