SPECIFICATION Spec
CONSTANTS
  NF = 3
INVARIANT GroupOK
INVARIANT EmitJob
