SPECIFICATION Spec
CONSTANTS
  K = 6
  SMIN = 1
  SMAX = 3
  SLACK = 0
  ONLYSMALLEST = TRUE
INVARIANT RootsSound
INVARIANT NoneMissed
INVARIANT FirstReported
INVARIANT VerdictSound
INVARIANT Covers
INVARIANT StepsBounded
CHECK_DEADLOCK FALSE
