SPECIFICATION Spec
CONSTANTS
  Sizes <- SizesSmall
  NSizes = {3, 5, 7, 9, 11, 13, 15}
  MaxP = 2
INVARIANT JobOK
INVARIANT WeightsDistinct
INVARIANT EmitJob
