SPECIFICATION TSpec
CONSTANTS
  ORDER <- OrderFull
  Unknown = {"Grid.nosuchkey", "NoSuchSection.x", "EquationOfMotion.errtol", "Thermodynamics.smoothing"}
CONSTRAINT Progress
INVARIANT TypeOK
POSTCONDITION TraceAccepted
CHECK_DEADLOCK FALSE
