---------------------------- MODULE FiniteDiff ----------------------------
(***************************************************************************)
(* C19.  Exact model of WallGo.helpers.derivative / gradient / hessian.     *)
(*                                                                          *)
(* The coefficient and position tables are NOT transcribed here: they are   *)
(* exported from the working tree's WallGo.helpers at check time as         *)
(* integers over a common denominator (file named by env FD_TABLES), so     *)
(* TLC reasons about the tables the code really uses.                       *)
(*                                                                          *)
(* Positions live on a half-step lattice: the step dx is DX = 2 lattice     *)
(* units, so "x + dx = hi" and "x + dx just beyond hi" are both             *)
(* representable and the four strict comparisons of the code are modelled   *)
(* exactly.  One action, Differentiate, is one call of `derivative` for one *)
(* element of x.  Everything below is integer arithmetic; the invariants    *)
(* are a proof by enumeration of a finite algebraic statement.              *)
(***************************************************************************)
EXTENDS Integers, Sequences, FiniteSets, TLC, Json, IOUtils

(* the tables are read once, into the state (a constant-level definition would be
   re-evaluated -- the file re-read -- at every use) *)
VARIABLE tab
T == tab
\* T.den                              common denominator of all numerators
\* T.integral                         TRUE iff every table entry was integral over den
\* T.first.o2.pos / .num, T.first.o4  rows of FIRST_DERIV_POS / _COEFF * den
\* T.second.o2 / .o4                  rows of SECOND_DERIV_*
\* T.hess.o2.px / .py / .num, .o4     HESSIAN_POS rows and HESSIAN_COEFF * den

DX == 2
XMAX == 26
NONE == -1000                         \* "no bound on this side"

Tab(n, acc) == IF n = 1 THEN (IF acc = 2 THEN T.first.o2 ELSE T.first.o4)
                        ELSE (IF acc = 2 THEN T.second.o2 ELSE T.second.o4)
HTab(acc) == IF acc = 2 THEN T.hess.o2 ELSE T.hess.o4

RECURSIVE Pow(_, _)
Pow(b, e) == IF e = 0 THEN 1 ELSE b * Pow(b, e - 1)
RECURSIVE Fact(_)
Fact(k) == IF k = 0 THEN 1 ELSE k * Fact(k - 1)
RECURSIVE SumSeq(_)
SumSeq(s) == IF s = <<>> THEN 0 ELSE Head(s) + SumSeq(Tail(s))
B2I(b) == IF b THEN 1 ELSE 0

(* the code's offset: four strict comparisons, the outer pair only for acc 4 *)
Offset(acc, x, lo, hi) ==
    LET up1 == hi # NONE /\ x + DX > hi
        dn1 == lo # NONE /\ x - DX < lo
        up2 == acc = 4 /\ hi # NONE /\ x + 2 * DX > hi
        dn2 == acc = 4 /\ lo # NONE /\ x - 2 * DX < lo
    IN  B2I(dn1) + B2I(dn2) - B2I(up1) - B2I(up2)

(* Python negative indexing into a table with nrows rows (1-based result) *)
RowIndex(off, nrows) == IF off >= 0 THEN off + 1 ELSE nrows + off + 1

Row(n, acc, off) == RowIndex(off, Len(Tab(n, acc).pos))
StencilPos(n, acc, off) == Tab(n, acc).pos[Row(n, acc, off)]
StencilNum(n, acc, off) == Tab(n, acc).num[Row(n, acc, off)]

(* sum_j c_j p_j^k *)
Moment(pos, num, k) == SumSeq([j \in 1..Len(pos) |-> num[j] * Pow(pos[j], k)])

RowExact(pos, num, n) ==
    /\ Len(pos) = Len(num)
    /\ \A k \in 0..(Len(pos) - 1) :
          Moment(pos, num, k) = (IF k = n THEN Fact(n) * T.den ELSE 0)

VARIABLE call      \* the current call: record with active |-> TRUE, or [active |-> FALSE]
vars == <<call, tab>>

InDomain(lo, hi) == lo = NONE \/ hi = NONE \/ hi - lo >= 8 * DX

Differentiate(acc, n, x, lo, hi) ==
    /\ (lo = NONE \/ lo <= x) /\ (hi = NONE \/ x <= hi)
    /\ (lo = NONE \/ hi = NONE \/ lo < hi)
    /\ UNCHANGED tab
    /\ LET off == Offset(acc, x, lo, hi)
       IN call' = [active |-> TRUE, acc |-> acc, n |-> n, x |-> x, lo |-> lo, hi |-> hi, off |-> off,
                   pos |-> StencilPos(n, acc, off), num |-> StencilNum(n, acc, off),
                   dom |-> InDomain(lo, hi)]

Init == call = [active |-> FALSE] /\ tab = JsonDeserialize(IOEnv.FD_TABLES)
Return == call.active /\ call' = [active |-> FALSE] /\ UNCHANGED tab
Next == \/ /\ ~call.active
           /\ \E acc \in {2, 4}, n \in {1, 2}, x \in 0..XMAX,
                 lo \in {NONE} \cup 0..XMAX, hi \in {NONE} \cup 0..XMAX :
                   Differentiate(acc, n, x, lo, hi)
        \/ Return
Spec == Init /\ [][Next]_vars

Active == call.active
Always == call = call     \* makes table-level facts state-level, so TLC reports them as invariants

(***************************** invariants ***********************************)
TablesIntegral == Always /\ T.integral

(* every row of every table is exact on monomials up to degree #points-1, whether or
   not a call selects it (all rows of the 4th-order tables are reachable, see Reach) *)
AllRowsExact == Always /\
    \A n \in {1, 2}, acc \in {2, 4} :
       /\ Len(Tab(n, acc).pos) = Len(Tab(n, acc).num)
       /\ \A r \in 1..Len(Tab(n, acc).pos) :
             RowExact(Tab(n, acc).pos[r], Tab(n, acc).num[r], n)

Exact == Active /\ call.dom => RowExact(call.pos, call.num, call.n)

InBounds == Active /\ call.dom =>
    \A j \in 1..Len(call.pos) :
       /\ call.lo # NONE => call.x + call.pos[j] * DX >= call.lo
       /\ call.hi # NONE => call.x + call.pos[j] * DX <= call.hi

Min(s) == CHOOSE a \in s : \A b \in s : a <= b
Max(s) == CHOOSE a \in s : \A b \in s : a >= b
PosSet(p) == {p[j] : j \in 1..Len(p)}

(* one-sided rows only next to the corresponding bound; central row is symmetric *)
RowMatchesSide == Active /\ call.dom =>
    LET ps == PosSet(call.pos) IN
    /\ call.off = 0 => Min(ps) = -Max(ps)
    /\ call.off > 0 => (call.lo # NONE /\ Min(ps) + Max(ps) > 0)
    /\ call.off < 0 => (call.hi # NONE /\ Min(ps) + Max(ps) < 0)
    /\ 0 \in 0..0

(* the stencil has acc+n-1 (central first), acc+1 ... points: what matters for the
   property is only "#points - 1 >= n", i.e. the exactness class is not empty *)
EnoughPoints == Active => Len(call.pos) > call.n

(******************************* Hessian ***********************************)
HessExactDeg(acc) == IF acc = 2 THEN 3 ELSE 5
\* off-diagonal entry d^2/dx dy on x^a y^b ; diagonal entry d^2/dx^2 on x^k
HessOffDiag(acc) ==
    LET h == HTab(acc) IN
    \A a \in 0..HessExactDeg(acc), b \in 0..HessExactDeg(acc) :
       a + b <= HessExactDeg(acc) =>
          SumSeq([j \in 1..Len(h.num) |-> h.num[j] * Pow(h.px[j], a) * Pow(h.py[j], b)])
             = (IF a = 1 /\ b = 1 THEN T.den ELSE 0)
HessDiag(acc) ==
    LET h == HTab(acc) IN
    \A k \in 0..HessExactDeg(acc) :
          SumSeq([j \in 1..Len(h.num) |-> h.num[j] * Pow(h.px[j] + h.py[j], k)])
             = (IF k = 2 THEN 2 * T.den ELSE 0)
HessianExact == Always /\ \A acc \in {2, 4} : HessOffDiag(acc) /\ HessDiag(acc)

(* gradient uses row 1 (central) of the first-derivative table *)
GradientExact == Always /\ \A acc \in {2, 4} :
    RowExact(Tab(1, acc).pos[1], Tab(1, acc).num[1], 1)

(**************************** shape algebra ********************************)
NormAxis(i, nv) == IF i < 0 THEN i + nv ELSE i
AxisOK(i, nv) == -nv <= i /\ i < nv
Front(s) == SubSeq(s, 1, Len(s) - 1)
DerivShape(shapeX, extra) == shapeX \o extra
GradShape(shapeX, axes) == Front(shapeX) \o <<Len(axes)>>
HessShape(shapeX, xa, ya) == Front(shapeX) \o <<Len(xa), Len(ya)>>
=============================================================================
