------------------------------ MODULE TraceSetup ------------------------------
(* Validates recorded executions of the real WallGoManager.setupThermodynamicsHydrodynamics against Setup.tla.  The harness   *)
(* (harness/drivers/setup.py) spies on the steps from outside -- validatePhaseInput, the template model's findvwLTE and      *)
(* findMatching, FreeEnergy.tracePhase, Thermodynamics.setExtrapolate, Hydrodynamics.__init__ -- optionally injecting a     *)
(* fault at one of the code's own error exits, and logs one event per step with the arguments it saw, in ticks of 1e-4 Tn. *)
EXTENDS Setup, TraceLib

Abs(x) == IF x < 0 THEN -x ELSE x
Near(a, b, tol) == Abs(a - b) <= tol
\* dT / temperatureVariationScale = phaseTracerTol^(1/4), in ticks of 1e-6, by digit class of the tolerance
DTRatio(d) == CASE d = 4 -> 100000 [] d = 6 -> 31623 [] d = 8 -> 10000 [] OTHER -> -1

TBegin == IsEvent("Begin") /\ pc = "start" /\ Ev.cfg = cfg /\ UNCHANGED vars
TValidate == IsEvent("Validate") /\ Validate(Ev.out)
TTemplateLTE == IsEvent("TemplateLTE") /\ TemplateLTE(Ev.ok)
TEstimate == IsEvent("Estimate") /\ Estimate(Ev.eps, Ev.tpJ, Ev.tmJ, Ev.tpSlow)
\* the requests the code actually made: phase, range, step, tolerance, first step
Asked(lo, hi) == /\ Near(Ev.lo, lo, 2) /\ Near(Ev.hi, hi, 2)
                 /\ Near(Ev.dTt, DTRatio(Ev.tolD), 2)
                 /\ Ev.rtolSame /\ Ev.firstStepSame
TTraceHigh == IsEvent("Trace") /\ Ev.phase = "high" /\ TraceHigh /\ Asked(req.highMin, req.highMax)
TTraceLow == IsEvent("Trace") /\ Ev.phase = "low" /\ TraceLow /\ Asked(req.lowMin, req.lowMax)
TSetExtrapolate == IsEvent("SetExtrapolate") /\ SetExtrapolate
THydro == IsEvent("InitHydro") /\ InitHydro
          /\ Near(Ev.tmax, cfg.hyMax, 1) /\ Near(Ev.tmin, cfg.hyMin, 1) /\ Ev.tolsSame /\ Ev.sameThermo
TJouguet == IsEvent("Jouguet") /\ Jouguet(Ev.ok)
\* how the call ended, and what it left behind in the manager
TEnd == /\ IsEvent("End")
        /\ pc \in {"ready", "failed"}
        /\ (Ev.out = "ok") <=> (pc = "ready")
        /\ pc = "failed" => Ev.out = err
        /\ Ev.phasesNew = phasesNew /\ Ev.thermoNew = thermoNew /\ Ev.hydroNew = hydroNew
        /\ UNCHANGED vars

TInit == /\ TraceInitLib /\ pc = "start" /\ err = "none" /\ req = [none |-> TRUE]
         /\ thermoNew = FALSE /\ hydroNew = FALSE /\ phasesNew = FALSE
         /\ cfg = Traces[tid].ev[1].cfg
TNext == TBegin \/ TValidate \/ TTemplateLTE \/ TEstimate \/ TTraceHigh \/ TTraceLow \/ TSetExtrapolate \/ THydro \/ TJouguet \/ TEnd
TSpec == TInit /\ [][TNext]_<<vars, tid, l>>
=============================================================================
