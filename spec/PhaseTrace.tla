------------------------------ MODULE PhaseTrace ------------------------------
(***************************************************************************)
(* C11.  FreeEnergy.tracePhase as a loop over temperature steps.            *)
(*                                                                          *)
(* Temperatures live on a lattice 0..TL.  The environment fixes the truth:  *)
(* the starting branch is a minimum exactly on [sLo, sHi] (beyond an end it *)
(* has disappeared at a spinodal; sLo = 0 / sHi = TL mean "never inside the *)
(* lattice"), and other minima exist.  The tracer starts at t0, integrates  *)
(* up to rHi, then down to rLo, in steps of at most DT.  One loop iteration *)
(* of the code is, in order:  RK step  ->  [paranoid: re-minimise]  ->      *)
(* spinodal test  ->  [non-paranoid: accuracy test]  ->  step-collapse exit *)
(* ->  append.  A step may OVERSHOOT the spinodal (the step size is not     *)
(* controlled by the existence of the minimum).  What re-minimisation does  *)
(* to a point whose branch has vanished is the crux:                        *)
(*   HopPossible = FALSE : it stays put, the spinodal test fires (property) *)
(*   HopPossible = TRUE  : it may land on another minimum, whose Hessian is *)
(*                         positive, so the test passes and the table       *)
(*                         continues on the wrong branch (as-found risk).   *)
(* Assemble: reported range = table ends -/+ 2 DT; an end is flagged as a   *)
(* genuine disappearance iff the table did not reach the requested end.     *)
(***************************************************************************)
EXTENDS Integers, FiniteSets, TLC

CONSTANTS TL, DT, HopPossible

VARIABLES t0, rLo, rHi, sLo, sHi, paranoid,     \* scenario (environment)
          dir, t, tabLo, tabHi, hop, outside, flagLo, flagHi, rangeLo, rangeHi
vars == <<t0, rLo, rHi, sLo, sHi, paranoid, dir, t, tabLo, tabHi, hop, outside, flagLo, flagHi, rangeLo, rangeHi>>
scen == <<t0, rLo, rHi, sLo, sHi, paranoid>>

Init == /\ t0 \in 0..TL /\ rLo \in 0..TL /\ rHi \in 0..TL /\ sLo \in 0..TL /\ sHi \in 0..TL
        /\ rLo < t0 /\ t0 < rHi /\ sLo < t0 /\ t0 < sHi       \* start strictly inside both
        /\ paranoid \in BOOLEAN
        /\ dir = "up" /\ t = t0 /\ tabLo = t0 /\ tabHi = t0
        /\ hop = FALSE /\ outside = FALSE
        /\ flagLo = FALSE /\ flagHi = FALSE /\ rangeLo = 0 /\ rangeHi = 0

Exists(x) == sLo <= x /\ x <= sHi
EndOf(d) == IF d = "up" THEN rHi ELSE rLo
Sign(d) == IF d = "up" THEN 1 ELSE -1
NextDir(d) == IF d = "up" THEN "down" ELSE "assemble"

\* leave the current direction (break or end of integration)
Leave == /\ dir' = NextDir(dir) /\ t' = t0
         /\ UNCHANGED <<scen, tabLo, tabHi, hop, outside, flagLo, flagHi, rangeLo, rangeHi>>

Append(x, onBranch) ==
    /\ tabLo' = IF x < tabLo THEN x ELSE tabLo
    /\ tabHi' = IF x > tabHi THEN x ELSE tabHi
    /\ hop' = (hop \/ ~onBranch)
    /\ outside' = (outside \/ ~Exists(x))
    /\ t' = x
    /\ dir' = IF x = EndOf(dir) THEN NextDir(dir) ELSE dir
    /\ UNCHANGED <<scen, flagLo, flagHi, rangeLo, rangeHi>>

Iter ==
    /\ dir \in {"up", "down"}
    /\ IF t = EndOf(dir) THEN Leave     \* only when t0 coincides with the end: excluded by Init
       ELSE \E h \in 1..DT :
         LET raw == t + Sign(dir) * h
             x == IF dir = "up" THEN (IF raw > rHi THEN rHi ELSE raw)
                                ELSE (IF raw < rLo THEN rLo ELSE raw)
         IN
         IF Exists(x) THEN Append(x, TRUE)
         ELSE \* the step overshot the spinodal
              IF paranoid /\ HopPossible
              THEN \/ Append(x, FALSE)            \* re-minimised onto another minimum: test passes
                   \/ Leave                       \* stayed on the vanished branch: test fires
              ELSE Leave                          \* spinodal test (or step collapse) stops the tracer

\* the ODE step size may also collapse just before a spinodal
Collapse == /\ dir \in {"up", "down"}
            /\ ~Exists(t + Sign(dir))
            /\ Leave

Assemble ==
    /\ dir = "assemble"
    /\ rangeLo' = tabLo + 2 * DT /\ rangeHi' = tabHi - 2 * DT
    /\ flagLo' = (tabLo > rLo) /\ flagHi' = (tabHi < rHi)
    /\ dir' = "done"
    /\ UNCHANGED <<scen, t, tabLo, tabHi, hop, outside>>

Next == Iter \/ Collapse \/ Assemble
Spec == Init /\ [][Next]_vars

(****************************** invariants *********************************)
Done == dir = "done"
SameBranch == ~hop
OnlyWhereExists == ~outside /\ (Done => sLo <= tabLo /\ tabHi <= sHi)
\* an end is flagged iff the branch really ends inside the requested range
FlagIffTruncated == Done => /\ flagLo <=> (sLo > rLo)
                            /\ flagHi <=> (sHi < rHi)
CoversRequest == Done => /\ ~flagLo => tabLo = rLo
                         /\ ~flagHi => tabHi = rHi
Margin == Done => rangeLo = tabLo + 2 * DT /\ rangeHi = tabHi - 2 * DT
\* the table gets within one maximal step of a spinodal it stops at
ReachesSpinodal == Done => /\ flagLo => tabLo - sLo < DT
                           /\ flagHi => sHi - tabHi < DT
=============================================================================
