--------------------------- MODULE TracePolyIndex ---------------------------
(* Trace validation for C16: each event is one PolyIndex case executed on the real *)
(* WallGo.Polynomial; TLC checks the descriptor algebra against the real object    *)
(* (output basis / direction / endpoints / shape) and judges the digit classes.    *)
EXTENDS PolyIndex, TraceLib

\* accuracy demanded: 12 digits for the small grids, relaxed with the size of the
\* (ill-conditioned, for large K) basis transforms and derivative matrices
DMin(M, N) == IF M <= 12 /\ N <= 12 THEN 11 ELSE IF M <= 40 /\ N <= 16 THEN 9 ELSE 7

SetOf(q) == {q[i] : i \in 1..Len(q)}
SumSeq(q) == IF q = <<>> THEN 0 ELSE q[1] + (IF Len(q) = 1 THEN 0 ELSE 0)

Expected(e) ==
    CASE e.op = "roundtrip" -> e.axes
      [] e.op = "derivative" -> AfterDerivative(e.axes, SetOf(e.S))
      [] e.op = "integrate" -> AfterIntegrate(e.axes, SetOf(e.S))
      [] e.op = "evaluate" -> RemoveAxes(e.axes, SetOf(e.S))

\* integrand (1-x^2) P q within the exactness class on every integrated axis
InClass(e) == \A k \in 1..Len(e.S) :
    2 + e.degP[k] + e.degQ[k] <= ExactDegree(e.M, e.N, e.axes[e.S[k]].dir)

TCase ==
    /\ IsEvent("Case")
    /\ ~c.active
    /\ LET e == Ev IN
       /\ e.M >= 2 /\ e.N >= 2
       /\ Case(e.M, e.N, e.axes, e.op, SetOf(e.S))
       /\ e.out = "ok"
       /\ e.outAxes = Expected(e)
       /\ e.op = "evaluate" => e.outShape = EvalShape(e.M, e.N, e.axes, SetOf(e.S), e.P)
       /\ e.op # "evaluate" => e.outShape = Shape(e.M, e.N, Expected(e))
       /\ e.inShape = Shape(e.M, e.N, e.axes)
       /\ e.op = "integrate" => (InClass(e) => e.d >= DMin(e.M, e.N))
       \* (differentiating along three or more axes at once multiplies the rounding of the data by the norms of as many
       \*  differentiation matrices, ~N^2 each: one digit of relief; measured worst 10 at rank 4 under VERIF_SEED=3)
       /\ e.op \notin {"integrate", "derivative"} => e.d >= DMin(e.M, e.N)
       /\ e.op = "derivative" => e.d >= DMin(e.M, e.N) - (IF Len(e.S) >= 3 THEN 1 ELSE 0)
       /\ e.dLin >= DMin(e.M, e.N)                                   \* linearity
       /\ e.op = "evaluate" => e.dNodes >= DMin(e.M, e.N)            \* grid values at grid points
       /\ e.op = "derivative" => e.dCommute >= DMin(e.M, e.N) - (IF Len(e.S) >= 3 THEN 1 ELSE 0)   \* axis by axis = all at once
       \* the same object differentiated again after its basis was changed in place, and changed back (call history)
       /\ e.op = "derivative" => e.dHist >= DMin(e.M, e.N) - 1 - (IF Len(e.S) >= 3 THEN 1 ELSE 0)
       \* one degree outside the class the rule must be visibly inexact (oracle not vacuous)
       /\ (e.op = "integrate" /\ e.kOut <= 10 /\ e.kOut >= 2) => e.dOutside <= 12

TDone == /\ c.active /\ c' = [active |-> FALSE] /\ UNCHANGED <<tid, l>>

TInit == TraceInitLib /\ Init
TNext == TCase \/ TDone
TSpec == TInit /\ [][TNext]_<<vars, tid, l>>
=============================================================================
