SPECIFICATION Spec
CONSTANTS
  ORDER <- OrderSmall
  Unknown = {"Grid.nosuchkey"}
INVARIANT TypeOK
PROPERTY Untouched
CHECK_DEADLOCK FALSE
