-------------------------------- MODULE Thermo --------------------------------
(***************************************************************************)
(* C10.  Region automaton and obligation matrix of WallGo.Thermodynamics.   *)
(*                                                                          *)
(* Each phase has a tabulated range [TMin, TMax]; a temperature is below /  *)
(* inside / above it.  Outside the range the equation of state is the       *)
(* template extrapolation whose coefficients are computed by setExtrapolate *)
(* (they are zero before it: evaluating outside the range before that call  *)
(* is a protocol error, made explicit here).  The property is an obligation *)
(* matrix: for every phase and region the identities                        *)
(*   e = T dp - p,  w = T dp,  cs2 = dp/de,  dp = p',  ddp = dp'            *)
(* and, at both ends of the range, continuity of p, dp, ddp, cs2, and       *)
(* inside the range p = -V(minimum).  A run of the conformance driver must  *)
(* discharge EVERY cell (a driver that silently stops sampling a region is  *)
(* rejected), each with a digit class meeting its bound.                    *)
(*                                                                          *)
(* Histories: the tables of a Thermodynamics object can be rebuilt (the     *)
(* phases traced again with another step, or after the potential's          *)
(* parameters changed).  Retrace returns the automaton to its initial       *)
(* state: the extrapolation coefficients belong to the old tables and every *)
(* obligation has to be discharged again on the new ones -- "at every       *)
(* temperature" holds for the object as it is now, not as it was when its   *)
(* derivatives were first looked at.                                        *)
(***************************************************************************)
EXTENDS Integers, Sequences, FiniteSets, TLC

Phases == {"high", "low"}
Regions == {"below", "inside", "above"}
Identities == {"e", "w", "cs2", "dp", "ddp"}
Ends == {"TMin", "TMax"}
Continuous == {"p", "dp", "ddp", "cs2"}

Cells == [phase : Phases, region : Regions, what : Identities]
         \cup [phase : Phases, end : Ends, what : Continuous]
         \cup [phase : Phases, inside : {"pIsMinusV"}]

\* digit bounds per kind of cell
Bound(c) ==
    IF "inside" \in DOMAIN c THEN 6                        \* p = -V(min): closed form, relative to the field-dependent part
    ELSE IF "end" \in DOMAIN c THEN 6                      \* continuity across a range end
    ELSE IF c.what \in {"e", "w", "cs2"} THEN 12           \* algebraic identities among reported quantities
    ELSE 8                                                 \* reported derivative vs derivative of reported function (6th-order stencil
                                                           \* inside one spline interval / one analytic region: measured 11; a table whose
                                                           \* derivative splines belong to an earlier tracing of the same phase gives 5)

NeedsExtrapolation(c) == ("region" \in DOMAIN c /\ c.region # "inside") \/ "end" \in DOMAIN c

Region(T, tmin, tmax) == IF T < tmin THEN "below" ELSE IF T > tmax THEN "above" ELSE "inside"

VARIABLES extrap, done, worst
vars == <<extrap, done, worst>>

Init == extrap = FALSE /\ done = {} /\ worst = 16

SetExtrapolate == extrap' = TRUE /\ UNCHANGED <<done, worst>>

Discharge(c, d) ==
    /\ c \in Cells
    /\ NeedsExtrapolation(c) => extrap          \* ordering: coefficients exist
    /\ d >= Bound(c)
    /\ done' = done \cup {c}
    /\ worst' = IF d < worst THEN d ELSE worst
    /\ UNCHANGED extrap

Retrace == extrap' = FALSE /\ done' = {} /\ worst' = 16

Next == SetExtrapolate \/ Retrace \/ \E c \in Cells, d \in {5, 6, 8, 12, 16} : Discharge(c, d)
Spec == Init /\ [][Next]_vars

Complete == done = Cells
\* a rebuilt table invalidates everything known about the old one
RetraceResets == [][(done' = {} /\ done # {}) => ~extrap']_vars
OrderOK == (\E c \in done : NeedsExtrapolation(c)) => extrap
RegionTotal == \A T \in 0..6 : Region(T, 2, 4) \in Regions
                 /\ (Region(T, 2, 4) = "inside" <=> (2 <= T /\ T <= 4))
Monotone == [][done \subseteq done' \/ (done' = {} /\ ~extrap')]_vars
\* the exhaustive run explores all orders of discharging up to 4 cells (2^48 subsets otherwise)
Small == Cardinality(done) <= 3
=============================================================================
