------------------------------- MODULE Manager -------------------------------
(***************************************************************************)
(* Life cycle of one WallGoManager and the history clause of C01:           *)
(*   "The result is a function of the model and settings only: repeating    *)
(*    the call, or interleaving other solver calls on the same manager      *)
(*    (LTE speed, detonation search, previous benchmark points), returns    *)
(*    the identical result."                                                *)
(*                                                                          *)
(* State of the manager as the code keeps it (manager.py):                  *)
(*   reg  -- the registered model (self.model), "none" before registerModel *)
(*   cur  -- the benchmark point whose phases / thermodynamics /            *)
(*           hydrodynamics are installed, "none" before the first           *)
(*           successful setupThermodynamicsHydrodynamics                    *)
(* A benchmark point is (model, nucleation temperature); ModelOf maps it to *)
(* its model.  registerModel replaces only self.model: until the next       *)
(* successful setup the installed thermodynamics belong to the previous     *)
(* point (the manager is then INCOHERENT; the documentation requires a new  *)
(* setup, so solver calls in that state are outside the property and the    *)
(* generator does not make them).  A setup attempt whose phase input is     *)
(* rejected (both phases equal / wrong order) raises                        *)
(* WallGoPhaseValidationError before anything is replaced.                  *)
(*                                                                          *)
(* F is what is known about the result function  (point, call) -> result    *)
(* identity.  In the design model F is total and fixed by the environment;  *)
(* when a recorded history is validated it is partial and every observed    *)
(* result either agrees with what is known or extends it -- a history is    *)
(* accepted exactly when SOME function of (point, call) explains all its    *)
(* results and those of fresh managers (the Ref events).                    *)
(***************************************************************************)
EXTENDS Integers, Sequences, FiniteSets, TLC

CONSTANTS Calls, BadInputs
\* the benchmark points of the conformance harness (harness/drivers/manager.py) and their models:
\* one-field model at two nucleation temperatures, two-field model, one-field model with an out-of-equilibrium particle
ModelOf == [A |-> "one", B |-> "one", C |-> "two", D |-> "oneP"]
Points == DOMAIN ModelOf
Models == {ModelOf[p] : p \in Points}
\* Calls: "info" (constants of the installed hydrodynamics/thermodynamics, read right after setup), "lte", "solve", "deton", "matching"

VARIABLES reg, cur, F, last
vars == <<reg, cur, F, last>>

NoLast == [op |-> "none"]
Coherent == cur # "none" /\ reg = ModelOf[cur]

\* result r observed for call c at point p: must agree with what is known, and becomes known
Know(p, c, r) == IF <<p, c>> \in DOMAIN F THEN F[<<p, c>>] = r /\ F' = F ELSE F' = (<<p, c>> :> r) @@ F

Register(m) ==
    /\ reg' = m
    /\ last' = [op |-> "Register", m |-> m, out |-> "ok"]
    /\ UNCHANGED <<cur, F>>

\* successful setup for point p: installs p; its constants are a result like any other
SetupOk(p, r) ==
    /\ reg = ModelOf[p]
    /\ cur' = p
    /\ Know(p, "info", r)
    /\ last' = [op |-> "Setup", p |-> p, out |-> "ok"]
    /\ UNCHANGED reg

\* rejected phase input: raises before anything is replaced
SetupRejected(p, why) ==
    /\ reg = ModelOf[p] /\ why \in BadInputs
    /\ last' = [op |-> "Setup", p |-> p, out |-> "WallGoPhaseValidationError"]
    /\ UNCHANGED <<reg, cur, F>>

\* a solver call on a coherent manager returns the function's value
Call(c, r) ==
    /\ Coherent /\ c \in Calls \ {"info"}
    /\ Know(cur, c, r)
    /\ last' = [op |-> "Call", c |-> c, p |-> cur, out |-> "ok"]
    /\ UNCHANGED <<reg, cur>>

\* before any setup a solver call cannot succeed (the code has nothing to work with: it raises)
CallTooEarly(c) ==
    /\ cur = "none" /\ c \in Calls \ {"info"}
    /\ last' = [op |-> "Call", c |-> c, p |-> "none", out |-> "raises"]
    /\ UNCHANGED <<reg, cur, F>>

(* design model: total result function chosen by the environment; results are small integers *)
CONSTANT NR
Init == /\ reg = "none" /\ cur = "none" /\ last = NoLast
        /\ F \in [Points \X Calls -> 1..NR]
Next == \/ \E m \in Models : Register(m)
        \/ \E p \in Points, r \in 1..NR : SetupOk(p, r)
        \/ \E p \in Points, w \in BadInputs : SetupRejected(p, w)
        \/ \E c \in Calls, r \in 1..NR : Call(c, r)
        \/ \E c \in Calls : CallTooEarly(c)
Spec == Init /\ [][Next]_vars

(****************************** properties *********************************)
\* the result function never changes: no call history can alter what a (point, call) returns
FunctionOfPointAndCall == [][\A k \in DOMAIN F : k \in DOMAIN F' /\ F'[k] = F[k]]_vars
\* installed data change only through a successful setup, the model only through registerModel
InstalledOnlyBySetup == [][cur' # cur => (last'.op = "Setup" /\ last'.out = "ok")]_vars
ModelOnlyByRegister == [][reg' # reg => last'.op = "Register"]_vars
\* a solver call that returned normally was made on a coherent manager, for the installed point
CallsAreCoherent == (last.op = "Call" /\ last.out = "ok") => (Coherent /\ last.p = cur)
\* a rejected setup leaves a coherent manager coherent and usable for the same point
RejectedSetupHarmless == [][(last'.op = "Setup" /\ last'.out # "ok") => (cur' = cur /\ reg' = reg)]_vars
=============================================================================
