----------------------------- MODULE TraceBoltzmann -----------------------------
(* Trace validation for C12 / C13: one event per Boltzmann.tla job executed on the real *)
(* BoltzmannSolver with synthetic collision operators and tanh backgrounds.             *)
EXTENDS Boltzmann, TraceLib

CONSTANT PROP

Inc(seq, step) == \A i \in 1..(Len(seq) - 1) : seq[i + 1] >= seq[i] + step

TSolve ==
    /\ IsEvent("solve")
    /\ Solve(Ev.c)
    /\ Ev.out = "ok"
    /\ Ev.c.bg = "hom" => Ev.dZero >= 10                  \* Homogeneous: deviation vanishes (vs the inhomogeneous solution of the same cell)
    /\ Ev.dRes >= 10                                     \* SolvesSystem: residual at rounding level
    /\ Ev.shapeOK

TBasis ==
    /\ IsEvent("basis")
    /\ BasisCell(Ev.M, Ev.N, Ev.P, Ev.bg)
    /\ Ev.out = "ok"
    /\ Len(Ev.cmp) = 3                                   \* three other basis pairs vs (Cardinal, Cardinal)
    /\ \A i \in 1..3 : /\ Ev.cmp[i].dF >= 9              \* same phase-space function
                       /\ Ev.cmp[i].dDeltas >= 9         \* same moments
                       /\ Ev.cmp[i].dTrunc >= 6          \* same truncation estimate (basis-free quantity)
    /\ Ev.bgUntouched                                    \* the ONE background object handed to all four solvers came out as it went in

\* errors are logged in centi-digits (100 * -log10 relative error): second-order finite differences
\* gain 60 centi-digits per doubling of M; demand at least 35, and a visible overall gain
TFd ==
    /\ IsEvent("fd")
    /\ FDChain(Ev.N, Ev.P, Ev.bg)
    /\ Ev.out = "ok"
    /\ Len(Ev.src) = 4 /\ Len(Ev.liou) = 4
    /\ Inc(Ev.src, 35) /\ Inc(Ev.liou, 35)
    /\ Ev.src[4] >= 150 /\ Ev.liou[4] >= 150             \* below 3% at M = 80

TFdHist ==
    /\ IsEvent("fdhist")
    /\ FDHistory(Ev.M, Ev.N, Ev.P, Ev.bN)
    /\ Ev.out = "ok"
    /\ Ev.same                                           \* spectral solve after the cross-check = the one before, bit for bit
    /\ Ev.basisKept                                      \* the solver's collision array is still in its own basis
    /\ Ev.fdFinite                                       \* (accuracy of the cross-check itself: the FD chain)

TMoment ==
    /\ IsEvent("moment")
    /\ MomentCell(Ev.N, Ev.scale, Ev.mass, Ev.grid, Ev.bM, Ev.bN, Ev.hist) /\ Ev.hist \in GridHist /\ Ev.grid \in GridKinds /\ Ev.bM \in Bases /\ Ev.bN \in Bases
    /\ Ev.out = "ok"
    \* identification table: row = moment computed by the code, column = weight the deviation was built for
    /\ \A m \in Moments, w \in Moments :
         \* 11 digits; 8 when the deviation had to be handed over as Chebyshev coefficients along the momentum axes: the
         \* harness inverts the node-value matrix for that, and the test deviations span many decades (measured 9 at worst)
         IF Weight[m] = Weight[w] THEN Ev.table[m][w] >= (IF Ev.bN = "Chebyshev" THEN 8 ELSE 11) ELSE Ev.table[m][w] <= 7
    /\ Ev.dLinear >= (IF Ev.bN = "Chebyshev" THEN 9 ELSE 12)   \* moments are linear in the deviation (same conditioning remark)
    /\ Ev.dTmunu >= 12                                   \* assembled T30, T33 = boosted direct integrals

TDone == job.active /\ Done /\ UNCHANGED <<tid, l>>

TInit == TraceInitLib /\ Init
TNext == (PROP = "C12" /\ (TSolve \/ TBasis \/ TFd \/ TFdHist)) \/ (PROP = "C13" /\ TMoment) \/ TDone
TSpec == TInit /\ [][TNext]_<<vars, tid, l>>
=============================================================================
