SPECIFICATION Spec
CONSTANTS
  G = 4
INVARIANT SuccIffNoGiveUp
INVARIANT BranchRight
CHECK_DEADLOCK FALSE
