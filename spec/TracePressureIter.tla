-------------------------- MODULE TracePressureIter --------------------------
(* Validates the recorded passes of real EOM.wallPressure calls against PressureIter.tla: the update kind and the       *)
(* multiplier used in every pass, the pass at which the loop stops, the flag and which pressure is returned.            *)
EXTENDS PressureIter, TraceLib
TStart ==
    /\ IsEvent("Start") /\ pc = "start"
    /\ maxIt' = Ev.maxIt /\ improve' = Ev.improve /\ pc' = "loop"
    /\ UNCHANGED <<i, n, k, succ, exit, mean>>
TPass ==
    /\ IsEvent("Pass")
    /\ Ev.improve = improve /\ Ev.k = k                         \* the pass used the update kind and damping the model prescribes
    /\ Pass(Ev.cErr, Ev.sLt, Ev.sGt, Ev.osc, Ev.slow)
TExit ==
    /\ IsEvent("Exit") /\ pc = "done"
    /\ Ev.passes = i /\ Ev.succ = succ
    /\ (mean => Ev.retMean) /\ (~mean => Ev.retLast)
    /\ UNCHANGED vars
TInit == /\ TraceInitLib /\ maxIt = 0 /\ i = 0 /\ n = 1 /\ k = 0 /\ improve = FALSE
         /\ pc = "start" /\ succ = TRUE /\ exit = "none" /\ mean = FALSE
TNext == TStart \/ TPass \/ TExit
TSpec == TInit /\ [][TNext]_<<vars, tid, l>>
=============================================================================
