---------------------------- MODULE SimInterpFn ----------------------------
(* Behaviour generator for C18: InterpFn with a history variable; every behaviour *)
(* of length D is printed as JSON and replayed into the real object.              *)
EXTENDS InterpFn, Json
CONSTANT D
VARIABLE hist

(* the generator starts in every combination of modes and adaptive switch; the first two
   history entries are the calls that put the real object into that state *)
SInit == \E l, u \in Modes, a \in BOOLEAN :
            /\ s = [has |-> FALSE, lo |-> 0, hi |-> 0, mLo |-> l, mHi |-> u, ad |-> a,
                    pend |-> 0, pLo |-> 0, pHi |-> 0, deg |-> FALSE]
            /\ hist = << [op |-> "SetModes", l |-> l, u |-> u],
                         [op |-> IF a THEN "EnableAdaptive" ELSE "DisableAdaptive"] >>
(* curated input menu: singles everywhere, pairs/triples/quadruples mixing below / in /
   above / table ends / the non-finite point, so that each kind of action has a similar
   number of successors and the simulator does not spend all its steps on evaluations *)
Menu == {<<p>> : p \in Pos}
        \cup {<<p, q>> : p, q \in {0, 4, 5, 8, 12}}
        \cup {<<0, 6, 12>>, <<5, 5, 6>>, <<3, 2, 1>>, <<9, 10, 11>>,
              <<0, 1, 11, 12>>, <<2, 2, 9, 11>>, <<1, 6, 7, 12>>, <<4, 5, 6, 7>>,
              <<12, 0, 6, 6>>, <<6, 7, 8, 9>>}
Ends == {0, 2, 4, 6, 8, 10, 12}
DMenu == {<<p>> : p \in {0, 3, 6, 9, 12}}
         \cup {<<0, 6, 12>>, <<1, 2>>, <<10, 11>>, <<2, 2, 9, 11>>, <<4, 5, 6, 7>>, <<6, 7>>}
Log(r) == hist' = Append(hist, r)
Shapes(xs) == IF Len(xs) = 1 THEN {"scalar", "list", "1d"}
              ELSE IF Len(xs) % 2 = 0 THEN {"list", "1d", "2d"} ELSE {"list", "1d"}

SNext ==
  \/ \E a, b \in Ends : NewTable(a, b) /\ Log([op |-> "NewTable", a |-> a, b |-> b])
  \/ \E xs \in Menu, ui \in BOOLEAN : Eval(xs, ui) /\ \E sh \in Shapes(xs) :
        Log([op |-> "Eval", xs |-> xs, ui |-> ui, shape |-> sh])
  \/ \E xs \in DMenu, o \in 1..2, ui \in BOOLEAN : Deriv(xs, o, ui) /\ \E sh \in Shapes(xs) :
        Log([op |-> "Deriv", xs |-> xs, order |-> o, ui |-> ui, shape |-> sh])
  \/ \E a, b \in Ends, kl, kh \in {0, 2} : a < b /\ Extend(a, b, kl, kh) /\
        Log([op |-> "Extend", a |-> a, b |-> b, kl |-> kl, kh |-> kh])
  \/ \E l, u \in Modes : SetModes(l, u) /\ Log([op |-> "SetModes", l |-> l, u |-> u])
  \/ EnableAdaptive /\ Log([op |-> "EnableAdaptive"])
  \/ DisableAdaptive /\ Log([op |-> "DisableAdaptive"])
  \/ WriteRead /\ \E w \in 1..6 : Log([op |-> "WriteRead", w |-> w])

SSpec == SInit /\ [][SNext]_<<s, hist>>
Bound == Len(hist) <= D
Emit == Len(hist) = D => PrintT(ToJson(hist))
=============================================================================
