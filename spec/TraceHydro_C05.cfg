SPECIFICATION TSpec
CONSTANTS
  K = 5
  PROP = "C05"
CONSTRAINT Progress
POSTCONDITION TraceAccepted
CHECK_DEADLOCK FALSE
