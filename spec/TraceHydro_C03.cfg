SPECIFICATION TSpec
CONSTANTS
  K = 5
  PROP = "C03"
CONSTRAINT Progress
POSTCONDITION TraceAccepted
CHECK_DEADLOCK FALSE
