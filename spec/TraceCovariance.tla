---------------------------- MODULE TraceCovariance ----------------------------
(* Trace validation for C07 (units) and C08 (field relabelling).  One trace = one Covariance.tla job;     *)
(* its events are the pipeline runs in the different representations.  All quantities are integer ticks:  *)
(* velocities 1e-7, temperatures 1e-6 Tn, lengths*Tn 1e-4, offsets 1e-4, field values 1e-5 of the field    *)
(* scale; the comparison is integer arithmetic inside TLC.                                                 *)
EXTENDS Covariance, TraceLib
CONSTANT PROP
VARIABLE base      \* the reference run (first event of the trace)

Abs(x) == IF x < 0 THEN -x ELSE x
Near(a, b, tol) == Abs(a - b) <= tol
NearSeq(p, q, tol) == Len(p) = Len(q) /\ \A k \in 1..Len(p) : Near(p[k], q[k], tol)

\* discrete outcome: identical in every representation
SameOutcome(a, b) == /\ a.out = b.out /\ a.kind = b.kind /\ a.succ = b.succ /\ a.type = b.type
                     /\ a.flags = b.flags /\ a.lte = b.lte

\* dimensionless numbers: equal within the solver tolerances (errTol in ticks is logged)
SameNumbers(a, b) ==
    /\ Near(a.vJ, b.vJ, 200) /\ Near(a.alN, b.alN, 200)                       \* hydrodynamics rtol 1e-6 (x margin)
    /\ (a.lte = "root" => Near(a.vLTE, b.vLTE, 200))
    \* tabulated ranges / Tn (1e-6 ticks): an end where the phase genuinely disappears is a physical temperature (0.2%);
    \* an unflagged end is only where the last step before the requested end happened to fall; in unit systems with
    \* Tn < 0.15 the absolute tolerance of the ODE integrator shapes the step sequence and the end moves by up to 3% (5%: not an output the
    \* property lists -- the step sequence of the tracer may differ between unit systems)
    /\ Len(a.ranges) = Len(b.ranges)
    /\ \A k \in 1..Len(a.ranges) : Near(a.ranges[k], b.ranges[k], IF a.flags[k] \/ ~(a.smallUnits \/ b.smallUnits) THEN 2000 ELSE 50000)
    /\ a.kind = "VELOCITY" =>
         /\ Near(a.vw, b.vw, 2 * a.errTol)
         /\ Near(a.Tp, b.Tp, 2000) /\ Near(a.Tm, b.Tm, 2000)                   \* temperatures follow vw: d T/d vw ~ 0.1
         /\ Len(a.widths) = Len(b.widths)

TBase == /\ IsEvent("Run") /\ base = [none |-> TRUE]
         /\ Ev.out = "ok"
         /\ base' = Ev /\ UNCHANGED vars

TUnits ==
    /\ IsEvent("Run") /\ PROP = "C07" /\ "out" \in DOMAIN base /\ base.out = "ok"
    /\ SameOutcome(base, Ev)
    /\ SameNumbers(base, Ev)
    /\ base.kind = "VELOCITY" =>
         /\ NearSeq(base.widths, Ev.widths, 3000)           \* L_i Tn in ticks of 1e-4: 0.3 against widths of 2..8
         /\ NearSeq(base.offsets, Ev.offsets, 1000)         \* 0.1
    /\ Ev.dimOK                                             \* dimensionful outputs carry the stated power of the factor
    /\ UNCHANGED <<vars, base>>

\* C08: Ev.g is the group element of this run
G == Ev.g
TRelabel ==
    /\ IsEvent("Run") /\ PROP = "C08" /\ "out" \in DOMAIN base /\ base.out = "ok"
    /\ SameOutcome(base, Ev)
    /\ SameNumbers(base, Ev)
    /\ Len(G.perm) = NF
    \* phase locations move as phi'_j = sign_j phi_perm(j) + shift_j
    /\ \A j \in 1..NF : /\ Near(Ev.phaseHigh[j], G.sign[j] * base.phaseHigh[G.perm[j]] + Ev.shiftTicks[j], 50)
                        /\ Near(Ev.phaseLow[j], G.sign[j] * base.phaseLow[G.perm[j]] + Ev.shiftTicks[j], 50)
    /\ base.kind = "VELOCITY" =>
         \* the set of widths is unchanged: widths'[j] = widths[perm(j)]
         /\ \A j \in 1..NF : Near(Ev.widths[j], base.widths[G.perm[j]], 3000)
         \* relative wall positions: centres c_j = -offset_j * width_j ; differences are permuted
         /\ \A j, k \in 1..NF : Near(Ev.centres[j] - Ev.centres[k], base.centres[G.perm[j]] - base.centres[G.perm[k]], 3000)
    /\ UNCHANGED <<vars, base>>

TInit == TraceInitLib /\ Init /\ base = [none |-> TRUE]
TNext == TBase \/ TUnits \/ TRelabel
TSpec == TInit /\ [][TNext]_<<vars, base, tid, l>>
=============================================================================
