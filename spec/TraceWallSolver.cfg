SPECIFICATION TSpec
CONSTANTS
  K = 1
  XTOL = 1
  VMIN = 0
  VMAX = 1
CONSTRAINT Progress
INVARIANT Bracketed
INVARIANT InWindow
INVARIANT RunawaySound
INVARIANT ErrorLabel
INVARIANT FromConverged
INVARIANT AtolBeforeSearch
POSTCONDITION TraceAccepted
CHECK_DEADLOCK FALSE
