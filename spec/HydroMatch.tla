------------------------------ MODULE HydroMatch ------------------------------
(***************************************************************************)
(* C02 C03 C05 C06 C15.  The discrete skeleton of WallGo's hydrodynamics:   *)
(*   mode "classify" : families of matching solutions on a velocity lattice *)
(*   mode "match"    : branch automaton of Hydrodynamics.findMatching       *)
(*   mode "lte"      : decision tree of findvwLTE with its sentinels        *)
(*   mode "window"   : fastestDeflag / range-limit flags                    *)
(* Velocities are lattice points 0..K.  The floating-point kernels (2x2     *)
(* matching solve, shock integration) appear as environment choices.        *)
(***************************************************************************)
EXTENDS Integers, Sequences, FiniteSets, TLC

CONSTANT K

VARIABLES mode, st
vars == <<mode, st>>

(*************************** mode "classify" *******************************)
\* vMin <= cm (sound speed behind the wall) <= vJ on the lattice; wall velocity vw
Family(vw, cm, vJ) == IF vw > vJ THEN "detonation" ELSE IF vw > cm THEN "hybrid" ELSE "deflagration"
\* the code's rule for the fluid speed behind the wall on the deflagration/hybrid side
VmRule(vw, cm) == IF vw < cm THEN vw ELSE cm

ClassifyInit == st \in [vMin : 1..K, cm : 1..K, vJ : 1..K, vw : 1..K, kind : {"classify"}]
ClassifyOK ==
    (mode = "classify" /\ st.vMin <= st.cm /\ st.cm <= st.vJ /\ st.vMin <= st.vw) =>
       LET f == Family(st.vw, st.cm, st.vJ) IN
       /\ f \in {"deflagration", "hybrid", "detonation"}
       /\ (f = "deflagration" <=> st.vw <= st.cm)                 \* v- = vw, subsonic behind
       /\ (f = "hybrid" <=> (st.cm < st.vw /\ st.vw <= st.vJ))    \* v- = c_s-
       /\ (f = "detonation" <=> st.vw > st.vJ)
       /\ (f # "detonation" => VmRule(st.vw, st.cm) <= st.vw /\ VmRule(st.vw, st.cm) <= st.cm)
       /\ (f = "deflagration" => VmRule(st.vw, st.cm) = st.vw)
       /\ (f = "hybrid" => VmRule(st.vw, st.cm) = st.cm)

(**************************** mode "match" *********************************)
\* environment: signs of (shock temperature - Tn) at the two ends of the v+ bracket,
\* whether the refined upper end changes the sign, sign of the interior extremum
MatchEnv == [deton : BOOLEAN, sMin : {-1, 1}, sMax : {-1, 1}, refinable : BOOLEAN, sMax2 : {-1, 1},
             extremumCrosses : BOOLEAN, finalConverged : BOOLEAN]
MatchInit == st \in [env : MatchEnv, pc : {"start"}, kind : {"none"}, bracketed : {FALSE}, usedExtremum : {FALSE}]

MatchStep ==
    /\ mode = "match"
    /\ LET e == st.env IN
       CASE st.pc = "start" ->
              st' = IF e.deton THEN [st EXCEPT !.pc = "done", !.kind = "exact"]
                    ELSE [st EXCEPT !.pc = "bracket"]
         [] st.pc = "bracket" ->
              st' = IF e.sMin * e.sMax <= 0 THEN [st EXCEPT !.pc = "root", !.bracketed = TRUE]
                    ELSE IF e.refinable THEN [st EXCEPT !.pc = "refined"]
                    ELSE [st EXCEPT !.pc = "extremum"]
         [] st.pc = "refined" ->
              st' = IF e.sMin * e.sMax2 <= 0 THEN [st EXCEPT !.pc = "root", !.bracketed = TRUE]
                    ELSE [st EXCEPT !.pc = "extremum"]
         [] st.pc = "extremum" ->
              st' = IF e.extremumCrosses THEN [st EXCEPT !.pc = "root", !.bracketed = TRUE, !.usedExtremum = TRUE]
                    ELSE [st EXCEPT !.pc = "done", !.kind = "template"]       \* fallback
         [] st.pc = "root" -> st' = [st EXCEPT !.pc = "final"]
         [] st.pc = "final" -> st' = [st EXCEPT !.pc = "done", !.kind = "exact"]
         [] OTHER -> UNCHANGED st
    /\ UNCHANGED mode

\* a sign change seen anywhere means an exact matching exists and must be returned
ExactExists(e) == e.deton \/ e.sMin * e.sMax <= 0 \/ (e.refinable /\ e.sMin * e.sMax2 <= 0) \/ e.extremumCrosses
NoNeedlessFallback == (mode = "match" /\ st.pc = "done") => (st.kind = "template" <=> ~ExactExists(st.env))

(***************************** mode "lte" **********************************)
\* E: sign of the entropy mismatch T+ gamma+ - T- gamma- of the standard matching on the window
\* lattice 1..K (index 1 = vMin, K = top of the deflagration/hybrid window); physics link used by
\* the decision tree: the LTE shock temperature exceeds Tn at v exactly when E(v) < 0.
LteEnv == [E : [1..K -> {-1, 1}], shockBehind : BOOLEAN, bracketFails : BOOLEAN, success : BOOLEAN]
Mono(E) == \A i \in 1..(K - 1) : E[i] <= E[i + 1]
LteInit == st \in [env : LteEnv, ret : {"none"}, root : {0}, via : {"none"}]

LteStep ==
    /\ mode = "lte" /\ st.ret = "none"
    /\ LET e == st.env
           dMax == -e.E[K]          \* sign of (shock temperature - Tn) at the top of the window
           dMin == -e.E[1]
       IN
       IF e.shockBehind /\ e.bracketFails
       THEN st' = [st EXCEPT !.ret = "one", !.via = "noShockBracket"]          \* named deviation
       ELSE IF ~e.success
       THEN st' = [st EXCEPT !.ret = "one", !.via = "unconverged"]             \* named deviation
       ELSE IF dMax > 0 THEN st' = [st EXCEPT !.ret = "one", !.via = "sign"]
       ELSE IF dMin < 0 THEN st' = [st EXCEPT !.ret = "zero", !.via = "sign"]
       ELSE \* the root finder returns some crossing: E <= 0 at r and E >= 0 just above it
            \E r \in 1..K : /\ e.E[r] = -1
                            /\ (r = K \/ e.E[r + 1] = 1)
                            /\ st' = [st EXCEPT !.ret = "root", !.root = r, !.via = "sign"]
    /\ UNCHANGED mode

OneSign(E, s) == \A i \in 1..K : E[i] = s
\* C05 sentinel clauses; they are guaranteed on the "sign" paths for monotone mismatch profiles
SentinelsSound ==
    (mode = "lte" /\ st.ret # "none" /\ st.via = "sign" /\ Mono(st.env.E)) =>
       /\ st.ret = "one" => OneSign(st.env.E, -1)
       /\ st.ret = "zero" => st.env.E[1] = 1
       /\ st.ret = "root" => (st.env.E[st.root] = -1 /\ (st.root = K \/ st.env.E[st.root + 1] = 1))
\* ... and are NOT guaranteed on the two named deviations (kept as documented counterexample)
SentinelsSoundEverywhere ==
    (mode = "lte" /\ st.ret = "one" /\ Mono(st.env.E)) => OneSign(st.env.E, -1)

(**************************** mode "window" ********************************)
\* T-(v) and T+(v) increase with v on the window 1..K; cutLow / cutHigh = first lattice velocity at
\* which the low / high phase leaves its tabulated range (K+1 = never)
WinEnv == [cutLow : 1..(K + 1), cutHigh : 1..(K + 1)]
WinInit == st \in [env : WinEnv, fastest : {0}, limLow : {FALSE}, limHigh : {FALSE}]
WinStep ==
    /\ mode = "window" /\ st.fastest = 0
    /\ LET e == st.env
           \* brentq on [2, K-1] finds the crossing only if the sign differs at the bracket ends
           foundLow == e.cutLow > 2 /\ e.cutLow <= K - 1
           foundHigh == e.cutHigh > 2 /\ e.cutHigh <= K - 1
           early == e.cutLow > K - 1 /\ e.cutHigh > K - 1          \* both in range just below vJ
           v1 == IF foundLow THEN e.cutLow ELSE K
           v2 == IF foundHigh THEN e.cutHigh ELSE K
       IN st' = IF early THEN [st EXCEPT !.fastest = K]
                ELSE [st EXCEPT !.fastest = IF v1 < v2 THEN v1 ELSE v2, !.limLow = foundLow, !.limHigh = foundHigh]
    /\ UNCHANGED mode
\* every velocity below the advertised fastest deflagration has both temperatures in range
WindowSound ==
    (mode = "window" /\ st.fastest # 0 /\ st.env.cutLow > 2 /\ st.env.cutHigh > 2) =>
       \A v \in 1..K : v < st.fastest => (v < st.env.cutLow /\ v < st.env.cutHigh)
\* named deviation: a range already exceeded at the bottom of the bracket is not seen (same sign at both ends)
WindowSoundEverywhere ==
    (mode = "window" /\ st.fastest # 0) =>
       \A v \in 1..K : v < st.fastest => (v < st.env.cutLow /\ v < st.env.cutHigh)

Init == \/ mode = "classify" /\ ClassifyInit
        \/ mode = "match" /\ MatchInit
        \/ mode = "lte" /\ LteInit
        \/ mode = "window" /\ WinInit
Next == MatchStep \/ LteStep \/ WinStep
Spec == Init /\ [][Next]_vars
=============================================================================
