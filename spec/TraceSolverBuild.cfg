SPECIFICATION TSpec
CONSTANTS
  Keys <- AllKeys
  Settings <- NoSettings
  TickMenus <- NoTicks
CONSTRAINT Progress
INVARIANT TFailureGivesNothing
INVARIANT TAdmissible
INVARIANT TDetonWindow
POSTCONDITION TraceAccepted
CHECK_DEADLOCK FALSE
