SPECIFICATION TSpec
CONSTANTS
  MMAX = 100
  NMAX = 100
  RMAX = 4
CONSTRAINT Progress
INVARIANT LengthsAgree
INVARIANT RestrictedVanish
INVARIANT AxisLocal
POSTCONDITION TraceAccepted
CHECK_DEADLOCK FALSE
