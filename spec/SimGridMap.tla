----------------------------- MODULE SimGridMap -----------------------------
(* Behaviour generator for C17: rescaling histories of one grid object. *)
EXTENDS GridMap, Json
CONSTANT D
VARIABLE hist
(* the simulator restarts its random stream for every behaviour, so the variety of the first
   call comes from the set of initial states: every admissible construction *)
SInit == \E k \in Kinds, p \in Par, sp \in {"Spectral", "Uniform"} :
            /\ Admissible(k, p)
            /\ kind = k /\ par = Norm(k, p) /\ cache = Norm(k, p) /\ pf = p.L /\ pc = "idle"
            /\ hist = <<[op |-> "Construct", kind |-> k, p |-> p, spacing |-> sp]>>
Log(r) == hist' = Append(hist, r)
SNext ==
  \/ \E nl \in 0..NL, ti, to \in 0..NTAIL, nc \in 0..NC :
        LET p == [par EXCEPT !.L = nl, !.tin = ti, !.tout = to, !.c = nc] IN
        ChangePositionBegin(p) /\ Log([op |-> "ChangePosition", p |-> p])
  \/ \E t \in 0..NTMP, w \in 1..20 : ChangeMomentumBegin(t) /\ Log([op |-> "ChangeMomentum", T |-> t, w |-> w])
  \/ (Recache \/ AckReject) /\ UNCHANGED hist
SSpec == SInit /\ [][SNext]_<<vars, hist>>
Bound == Len(hist) <= D
Emit == (Len(hist) = D /\ pc = "idle") => PrintT(ToJson(hist))
=============================================================================
