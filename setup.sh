#!/bin/sh
# offline setup: syntax/semantic check of every TLA+ module, harness import smoke test
set -e
cd "$(dirname "$0")"
fail=0
for f in spec/*.tla; do
  out=$(cd spec && java -cp /opt/veriftools/tla/tla2tools.jar:/opt/veriftools/tla/CommunityModules-deps.jar tla2sany.SANY "$(basename "$f")" 2>&1) || true
  if echo "$out" | grep -q -e "Semantic errors" -e "Parse Error" -e "Could not parse" -e "Fatal errors"; then echo "SANY FAILED: $f"; echo "$out" | tail -20; fail=1; fi
done
PYTHONPATH=/verif:/repo/src /venv/bin/python -c "import harness.core, harness.tlc, harness.quant, WallGo; print('harness import ok')"
mkdir -p evidence replays
exit $fail
